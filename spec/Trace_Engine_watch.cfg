SPECIFICATION TraceSpec
CONSTANTS
  N = 7
  Watch = TRUE
  MaxChanges = 99
  Failures = TRUE
  Slow = TRUE
  Signals = TRUE
  Skips = TRUE
  Inherit = TRUE
  CapChan = 0
  CapInbox = 0
  AckLate = TRUE
  RecordBefore = TRUE
  StrictStart = FALSE
  Unrequests = FALSE
INVARIANTS TypeOK NoStepViolation OnceOnly ExitComplete ExitStatusRight KeepAlive ServiceUpForDependents SingleInstance CleanExit UpToDate
POSTCONDITION TraceAccepted
CHECK_DEADLOCK FALSE
