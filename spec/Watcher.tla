------------------------------- MODULE Watcher -------------------------------
(***************************************************************************)
(* Design specification of the watch side of a target (area D/A):          *)
(* src/engine/watcher.rs TargetWatcher::new and the callback of            *)
(* build_immediate_watcher, as a step machine.                             *)
(*                                                                         *)
(*   group:     the input's files resources are grouped by their extension *)
(*              list (a HashMap keyed by the list): one notify watcher per *)
(*              distinct list, over the union of the paths of its group    *)
(*   register:  each (group, path) pair is registered recursively, in the  *)
(*              order the hash containers yield them; a path that does not *)
(*              exist is skipped with a warning (repair of F4)             *)
(*   watching:  a change below a registered path is delivered to the       *)
(*              callback of that group's watcher (queued by the OS); the   *)
(*              callback filters the path (not a temporary editor file,    *)
(*              not inside .zinoma, name matches the group's extensions)   *)
(*              and try_sends into the capacity-1 invalidation channel;    *)
(*              the actor takes the notice at its select!                  *)
(*                                                                         *)
(* The configuration (resources, which declared paths exist) is chosen in  *)
(* Init.  The algorithm is compared with the declarative rule of           *)
(* ResourceRules (C16: Relevant; C15: "watching applies the same rule to   *)
(* the path of each event"), which is what ResourcesObs.tla holds the real *)
(* TargetWatcher to.  DedupAcrossGroups names a plausible optimisation     *)
(* ("one recursive watch per path is enough") with which the design is     *)
(* wrong - TLC reports ReportsExactlyRelevant violated.                    *)
(***************************************************************************)
EXTENDS ResourceRules

CONSTANTS MaxRes,              \* resources per input (1..MaxRes)
          MaxEvents,           \* file-system changes explored
          DedupAcrossGroups    \* FALSE = the code; TRUE = the model mutant

Dirs == {<<"src">>, <<"src", "sub">>, <<"gen">>}
ExtLists == {<<>>, <<"txt">>, <<"o">>, <<"txt", "o">>}
\* what can change: names with each extension, a temporary editor file, a file inside a work directory, outside every path
Changes == {<<"src", "a.txt">>, <<"src", "b.o">>, <<"src", "sub", "c.txt">>, <<"src", "sub", "d.o">>, <<"src", "n.md">>,
            <<"src", "a.txt~">>, <<"src", ".zinoma", "t.txt">>, <<"gen", "e.o">>, <<"other", "f.txt">>}

VARIABLES resources,  \* Seq([paths : SUBSET Dirs, exts : ExtLists])
          missing,    \* declared paths that do not exist when watching starts
          pc,         \* "group" | "register" | "watching"
          i,          \* next resource to group
          groups,     \* [ExtLists -> SUBSET Dirs]  paths_grouped_by_extensions
          todo,       \* (group, path) pairs still to register
          seen,       \* paths some group already registered (only read by the model mutant)
          reg,        \* [ExtLists -> SUBSET Dirs]  what each group's watcher really watches
          queue,      \* [ExtLists -> Seq(path)]    events delivered by the OS, callback not yet run
          slot,       \* the capacity-1 invalidation channel is full
          owed,       \* ghost: a relevant change happened that no notice taken by the actor covers yet
          nEvents, viol

vars == <<resources, missing, pc, i, groups, todo, seen, reg, queue, slot, owed, nEvents, viol>>

ResSets == {[paths |-> P, exts |-> e] : P \in (SUBSET Dirs) \ {{}}, e \in ExtLists}

Init ==
  /\ \E n \in 1..MaxRes : resources \in [1..n -> ResSets]
  /\ missing \in SUBSET {<<"gen">>, <<"src", "sub">>}
  /\ pc = "group" /\ i = 1
  /\ groups = [e \in ExtLists |-> {}] /\ reg = [e \in ExtLists |-> {}]
  /\ todo = {} /\ seen = {}
  /\ queue = [e \in ExtLists |-> <<>>]
  /\ slot = FALSE /\ owed = FALSE /\ nEvents = 0 /\ viol = {}

\* watcher.rs: for resource in &target_input.files { entry(extensions).or_insert_with(HashSet::new).extend(paths) }
Group ==
  /\ pc = "group"
  /\ IF i <= Len(resources)
     THEN /\ groups' = [groups EXCEPT ![resources[i].exts] = @ \cup resources[i].paths]
          /\ i' = i + 1 /\ UNCHANGED <<pc, todo>>
     ELSE /\ pc' = "register"
          /\ todo' = {x \in ExtLists \X Dirs : x[2] \in groups[x[1]]}
          /\ UNCHANGED <<groups, i>>
  /\ UNCHANGED <<resources, missing, seen, reg, queue, slot, owed, nEvents, viol>>

\* watcher.watch(path, Recursive) for every path of every group, in hash order; PathNotFound / Io(NotFound) are skipped
Register ==
  /\ pc = "register"
  /\ IF todo = {}
     THEN pc' = "watching" /\ UNCHANGED <<todo, reg, seen>>
     ELSE \E x \in todo :
            /\ todo' = todo \ {x}
            /\ pc' = pc
            /\ IF x[2] \in missing \/ (DedupAcrossGroups /\ x[2] \in seen)
               THEN UNCHANGED <<reg, seen>>
               ELSE reg' = [reg EXCEPT ![x[1]] = @ \cup {x[2]}] /\ seen' = seen \cup {x[2]}
  /\ UNCHANGED <<resources, missing, i, groups, queue, slot, owed, nEvents, viol>>

\* the declarative rule (what ResourcesObs demands of the real watcher): some resource lists a path above f that existed
\* when watching began, and f passes that resource's filter
RelAny(f) == \E k \in 1..Len(resources) :
                /\ \E d \in resources[k].paths \ missing : IsPrefix(d, f)
                /\ Relevant(f, resources[k].exts)

\* the kernel reports f to every watcher that has a registered path above it
Change(f) ==
  /\ pc = "watching" /\ nEvents < MaxEvents
  /\ nEvents' = nEvents + 1
  /\ queue' = [e \in ExtLists |-> IF \E d \in reg[e] : IsPrefix(d, f) THEN Append(queue[e], f) ELSE queue[e]]
  /\ owed' = (owed \/ RelAny(f))
  \* the algorithm must report f exactly when the rule says so (C16 both ways, C15 "the same rule")
  /\ viol' = viol \cup (IF RelAny(f) # (\E e \in ExtLists : (\E d \in reg[e] : IsPrefix(d, f)) /\ Relevant(f, e))
                        THEN {"ReportsExactlyRelevant"} ELSE {})
  /\ UNCHANGED <<resources, missing, pc, i, groups, todo, seen, reg, slot>>

\* the callback of group e's watcher: filter, then try_send (never blocks; a full channel means "already invalidated")
Callback(e) ==
  /\ pc = "watching" /\ queue[e] # <<>>
  /\ queue' = [queue EXCEPT ![e] = Tail(@)]
  /\ slot' = (slot \/ Relevant(Head(queue[e]), e))
  /\ UNCHANGED <<resources, missing, pc, i, groups, todo, seen, reg, owed, nEvents, viol>>

\* the actor's select! takes the notice (target_invalidated_events arm)
Take ==
  /\ pc = "watching" /\ slot
  /\ slot' = FALSE
  \* whatever is still queued and relevant will fill the slot again
  /\ owed' = \E e \in ExtLists : \E k \in 1..Len(queue[e]) : Relevant(queue[e][k], e)
  /\ UNCHANGED <<resources, missing, pc, i, groups, todo, seen, reg, queue, nEvents, viol>>

Next == Group \/ Register \/ (\E f \in Changes : Change(f)) \/ (\E e \in ExtLists : Callback(e)) \/ Take
Spec == Init /\ [][Next]_vars

-----------------------------------------------------------------------------
NoViolation == viol = {}
\* grouping loses nothing: every existing declared path is watched by the watcher that filters with its resource's list
GroupingFaithful == pc = "watching" =>
   \A k \in 1..Len(resources) : resources[k].paths \ missing \subseteq reg[resources[k].exts]
\* and adds nothing: a watcher watches only declared paths of its own group
NothingExtra == \A e \in ExtLists : reg[e] \subseteq UNION {resources[k].paths : k \in {j \in 1..Len(resources) : resources[j].exts = e}}
\* no relevant change is lost between the kernel and the actor: it is queued, or the notice is waiting, or it was taken
NoticeNotLost == owed => (slot \/ \E e \in ExtLists : \E k \in 1..Len(queue[e]) : Relevant(queue[e][k], e))
\* a notice is only ever caused by a relevant change (irrelevant changes stay silent)
NoSpuriousNotice == slot => owed
=============================================================================
