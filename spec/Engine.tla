------------------------------- MODULE Engine -------------------------------
(***************************************************************************)
(* Detailed, implementation-shaped specification of zinoma's engine        *)
(* (src/engine/{mod,target_actors}.rs, src/engine/target_actor/*.rs,       *)
(* src/engine/{builder,incremental/mod}.rs as seen from the engine,        *)
(* src/main.rs:89-110).  One action per critical section of the code.      *)
(* The target graph, the kinds, the requested roots, who may fail, who is  *)
(* slow and what was recorded by an earlier invocation are chosen in Init, *)
(* so one TLC run quantifies over every such configuration.                *)
(***************************************************************************)
EXTENDS Integers, Sequences, FiniteSets, TLC

CONSTANTS
  N,            \* targets are 1..N; deps[t] \subseteq 1..t-1 (every DAG has such a labelling)
  Watch,        \* BOOLEAN  --watch
  MaxChanges,   \* bound on the number of FileChange steps (watch mode)
  Failures,     \* BOOLEAN  any script / service launch may fail, whenever it runs
  Slow,         \* BOOLEAN  some scripts never finish (slow chosen in Init)
  Signals,      \* BOOLEAN  SIGINT/SIGTERM may arrive, at any moment
  Skips,        \* BOOLEAN  an earlier invocation may have left a current record
  Inherit,      \* BOOLEAN  X.output inheritance is modelled (inh chosen in Init)
  CapChan,      \* capacity of the actor->relay channel, 0 = unbounded   (main.rs:93)
  CapInbox,     \* capacity of an actor inbox, 0 = unbounded              (target_actor/mod.rs:89)
  AckLate,      \* TRUE = code acknowledges a requester registering after completion (repair of F1)
  RecordBefore, \* TRUE = input state captured before the script (repair of F3)
  StrictStart,  \* TRUE = demand C01's watch clause at the instant of the spawn (exhibits finding F10)
  Unrequests    \* FALSE = the code: nobody ever originates Unrequested (its handlers exist but are unreachable);
                \* TRUE = the TODO of build_target_actor.rs ("Eventually, unrequest dependency services"): a build that
                \*        completed releases the services it depends on - explored by TLC only, see DESIGN.md

T == 1..N
ROOT == 0
Kinds == {"b", "s", "a"}           \* build, service, aggregate
EK == {"b", "s"}                   \* ExecutionKind::{Build, Service}

VARIABLES
  \* ---- configuration (chosen in Init, never changed)
  kind, deps, roots, slow, inh,
  \* ---- actors
  st,        \* [T -> local record]       TargetActorHelper + actor-specific fields
  inbox,     \* [T -> Seq(msg)]           target_actor_input channel
  pend,      \* [T -> Seq(outmsg)]        sends of the current handler not yet accepted by the relay channel
  out,       \* [T -> Seq(outmsg)]        messages of sender t sitting in the relay channel (per-sender FIFO)
  invalSlot, \* [T -> BOOLEAN]            capacity-1 invalidation channel
  termSlot,  \* [T -> BOOLEAN]            capacity-1 termination channel
  launched,  \* SUBSET T                  actors created so far (lazily, on first message)
  alive,     \* [T -> BOOLEAN]            actor task still running
  \* ---- relay / root (engine::run, main.rs)
  hold,      \* message taken from the channel, not yet accepted by a full inbox; NoMsg otherwise
  rootPhase, \* "requesting","looping","waitsig","terminating","joining","exited"
  reqIdx,    \* number of Requested messages already pushed by engine::run
  unavB, unavS, svcRoots, termRecv, exitStatus, errTarget,
  \* ---- environment
  signalled, \* a termination message sits in the termination channel
  sigUsed,   \* the (single) signal has been delivered
  inVer,     \* [T -> Nat]  version of t's own declared inputs
  gen,       \* [T -> Nat]  generation of t's outputs (bumped by each completed script)
  rec,       \* [T -> version vector or NoRec]   the .checksums record
  cap,       \* [T -> version vector] input state captured by the in-flight run
  saw,       \* [T -> version vector] what the in-flight / last script read
  outOf,     \* [T -> version vector or NoRec]  inputs the current outputs were built from
  notif,     \* [T -> BOOLEAN] a watcher notification is on its way to the invalidation slot
  nChanges,
  \* ---- observation (history) variables
  nStart,    \* [T -> Nat] scripts / services started
  nSkip,     \* [T -> Nat] builds skipped
  ready,     \* [T -> BOOLEAN] finished successfully (or skipped) / service started, at least once
  failed,    \* [T -> BOOLEAN] last execution failed
  word,      \* [T -> [T -> [EK -> {"none","ok","inv"}]]] latest word t received from d
  proc,      \* [T -> 0..2] live shells of t (build shell or service instances)
  viol,      \* set of names of violated step properties (monitors)
  stale      \* [T -> SUBSET T] builds (reached through aggregates) that completed a re-run after t's current run was decided

cfgVars == <<kind, deps, roots, slow, inh>>
actVars == <<st, inbox, pend, out, invalSlot, termSlot, launched, alive>>
rootVars == <<hold, rootPhase, reqIdx, unavB, unavS, svcRoots, termRecv, exitStatus, errTarget>>
envVars == <<signalled, sigUsed, inVer, gen, rec, cap, saw, outOf, notif, nChanges>>
envNoCap == <<signalled, sigUsed, inVer, gen, rec, saw, outOf, notif, nChanges>>
obsVars == <<nStart, nSkip, ready, failed, word, proc, viol, stale>>
vars == <<cfgVars, actVars, rootVars, envVars, obsVars>>

NoMsg == [dest |-> -2]
NoRec == <<-1>>

-----------------------------------------------------------------------------
(* Graph helpers *)

RECURSIVE SortedSeq(_)
SortedSeq(S) == IF S = {} THEN <<>>
                ELSE LET m == CHOOSE x \in S : \A y \in S : x <= y
                     IN <<m>> \o SortedSeq(S \ {m})

RECURSIVE TransDeps(_)
TransDeps(t) == deps[t] \cup UNION {TransDeps(d) : d \in deps[t]}

Closure(R) == R \cup UNION {TransDeps(r) : r \in R}

\* non-aggregate targets reached from t through aggregate-only interior nodes
RECURSIVE EffDeps(_)
EffDeps(t) == UNION {IF kind[d] = "a" THEN EffDeps(d) ELSE {d} : d \in deps[t]}

RECURSIVE ServiceBehind(_)
ServiceBehind(t) == \/ kind[t] = "s"
                    \/ kind[t] = "a" /\ \E d \in deps[t] : ServiceBehind(d)

RootSeq == SortedSeq(roots)
DepSeq(t) == SortedSeq(deps[t])

\* the version vector zinoma compares for t: own inputs and inherited producers' outputs
EffIn(t) == <<inVer[t]>> \o [i \in 1..Len(SortedSeq(inh[t])) |-> gen[SortedSeq(inh[t])[i]]]

-----------------------------------------------------------------------------
(* Messages *)

M(dest, ty, k, from, actual) == [dest |-> dest, ty |-> ty, k |-> k, from |-> from, act |-> actual]
Err(t) == [dest |-> -1, ty |-> "err", k |-> "b", from |-> t, act |-> FALSE]

ToDeps(t, ty, k) == LET ds == DepSeq(t) IN [i \in 1..Len(ds) |-> M(ds[i], ty, k, t, FALSE)]
ToSet(t, S, ty, k, actual) == LET rs == SortedSeq(S) IN [i \in 1..Len(rs) |-> M(rs[i], ty, k, t, actual)]

Unav(s, k) == IF k = "b" THEN s.unavB ELSE s.unavS
Reqs(s, k) == IF k = "b" THEN s.reqB ELSE s.reqS
Act(s, k)  == IF k = "b" THEN s.actB ELSE s.actS
SetUnav(s, k, v) == IF k = "b" THEN [s EXCEPT !.unavB = v] ELSE [s EXCEPT !.unavS = v]
SetReqs(s, k, v) == IF k = "b" THEN [s EXCEPT !.reqB = v] ELSE [s EXCEPT !.reqS = v]
SetAct(s, k, v)  == IF k = "b" THEN [s EXCEPT !.actB = v] ELSE [s EXCEPT !.actS = v]

InitLocal(t) == [toExec |-> TRUE, executed |-> FALSE,
                 unavB |-> deps[t], unavS |-> deps[t],
                 reqB |-> {}, reqS |-> {}, actB |-> {}, actS |-> {},
                 bpc |-> "none", termSeen |-> FALSE, cancelSent |-> FALSE, up |-> FALSE]

\* target_actor_helper.rs:55
ShouldExec(s, k) == s.toExec /\ Reqs(s, k) # {} /\ s.unavB = {} /\ s.unavS = {}

R(s, o) == [st |-> s, out |-> o, started |-> FALSE, svcFail |-> FALSE, aggOk |-> {}, begun |-> FALSE, stopped |-> FALSE]

\* target_actor_helper.rs handle_unrequested: the requester is forgotten; TRUE iff it was there and was the last one
Forget(s, k, r) == SetReqs(s, k, Reqs(s, k) \ {r})
WasLast(s, k, r) == r \in Reqs(s, k) /\ Reqs(s, k) \ {r} = {}

\* target_actor_helper.rs:62  notify_invalidated
NotifyInvalidated(t, s, k) ==
  IF ~s.toExec
  THEN R([s EXCEPT !.toExec = TRUE, !.executed = FALSE], ToSet(t, Reqs(s, k), "inv", k, FALSE))
  ELSE R(s, <<>>)

-----------------------------------------------------------------------------
(* The inbox arm of each actor's select!, as a function from (local state, message) to
   (local state, messages sent).  build_target_actor.rs:63-100 *)

HandleBuild(t, s, m) ==
  CASE m.ty = "ok"  -> R(SetUnav(s, m.k, Unav(s, m.k) \ {m.from}), <<>>)
    [] m.ty = "inv" -> LET s1 == SetUnav(s, m.k, Unav(s, m.k) \cup {m.from})
                       IN IF m.k = "b" THEN NotifyInvalidated(t, s1, "b") ELSE R(s1, <<>>)
    [] m.ty = "req" /\ m.k = "b" ->
         LET inserted == m.from \notin s.reqB
             s1 == [s EXCEPT !.reqB = @ \cup {m.from}]
         IN IF inserted /\ Cardinality(s1.reqB) = 1
            THEN R(s1, ToDeps(t, "req", "b") \o ToDeps(t, "req", "s"))
            ELSE IF AckLate /\ inserted /\ s.executed
                 THEN R(s1, <<M(m.from, "ok", "b", t, TRUE)>>)
                 ELSE R(s1, <<>>)
    [] m.ty = "req" /\ m.k = "s" -> R(s, <<M(m.from, "ok", "s", t, FALSE)>>)
    \* build_target_actor.rs Unrequested arm: the last build requester gone => the dependencies are released in turn
    [] m.ty = "unreq" -> IF WasLast(s, m.k, m.from) /\ m.k = "b"
                         THEN R(Forget(s, m.k, m.from), ToDeps(t, "unreq", "b") \o ToDeps(t, "unreq", "s"))
                         ELSE R(Forget(s, m.k, m.from), <<>>)
    [] OTHER -> R(s, <<>>)

\* service_target_actor.rs:44-78
HandleService(t, s, m) ==
  CASE m.ty = "ok"  -> R(SetUnav(s, m.k, Unav(s, m.k) \ {m.from}), <<>>)
    [] m.ty = "inv" -> NotifyInvalidated(t, SetUnav(s, m.k, Unav(s, m.k) \cup {m.from}), "s")
    [] m.ty = "req" /\ m.k = "b" -> R(s, <<M(m.from, "ok", "b", t, FALSE)>>)
    [] m.ty = "req" /\ m.k = "s" ->
         LET inserted == m.from \notin s.reqS
             s1 == [s EXCEPT !.reqS = @ \cup {m.from}]
         IN IF inserted /\ Cardinality(s1.reqS) = 1
            THEN R(s1, ToDeps(t, "req", "b") \o ToDeps(t, "req", "s"))
            ELSE IF AckLate /\ inserted /\ s.executed
                 THEN R(s1, <<M(m.from, "ok", "s", t, TRUE)>>)
                 ELSE R(s1, <<>>)
    \* service_target_actor.rs Unrequested arm: the last service requester gone => release the dependencies, stop_service()
    \* (to_execute / executed are left as they are: a later Requested finds len() == 1 and re-requests the dependencies,
    \* but nothing makes the stopped service start again or answer - TLC shows where that leads with Unrequests = TRUE)
    [] m.ty = "unreq" -> IF WasLast(s, m.k, m.from) /\ m.k = "s"
                         THEN [R([Forget(s, m.k, m.from) EXCEPT !.up = FALSE], ToDeps(t, "unreq", "b") \o ToDeps(t, "unreq", "s"))
                                 EXCEPT !.stopped = TRUE]
                         ELSE R(Forget(s, m.k, m.from), <<>>)
    [] OTHER -> R(s, <<>>)

\* aggregate_target_actor.rs:30-80
HandleAggregate(t, s, m) ==
  CASE m.ty = "ok" ->
         LET removed == m.from \in Unav(s, m.k)
             s1 == SetUnav(s, m.k, Unav(s, m.k) \ {m.from})
             s2 == IF m.act THEN SetAct(s1, m.k, Act(s1, m.k) \cup {m.from}) ELSE s1
         IN IF removed /\ Unav(s2, m.k) = {}
            THEN [R(s2, ToSet(t, Reqs(s2, m.k), "ok", m.k, Act(s2, m.k) # {})) EXCEPT !.aggOk = {m.k}]
            ELSE R(s2, <<>>)
    [] m.ty = "inv" ->
         LET inserted == m.from \notin Unav(s, m.k)
             s1 == SetUnav(s, m.k, Unav(s, m.k) \cup {m.from})
         IN IF inserted /\ Cardinality(Unav(s1, m.k)) = 1
            THEN R(s1, ToSet(t, Reqs(s1, m.k), "inv", m.k, FALSE))
            ELSE R(s1, <<>>)
    [] m.ty = "req" ->
         LET inserted == m.from \notin Reqs(s, m.k)
             s1 == SetReqs(s, m.k, Reqs(s, m.k) \cup {m.from})
             o1 == IF inserted /\ Cardinality(Reqs(s1, m.k)) = 1 THEN ToDeps(t, "req", m.k) ELSE <<>>
         IN IF inserted /\ Unav(s1, m.k) = {}
            THEN [R(s1, o1 \o <<M(m.from, "ok", m.k, t, Act(s1, m.k) # {})>>) EXCEPT !.aggOk = {m.k}]
            ELSE R(s1, o1)
    \* aggregate_target_actor.rs Unrequested arm
    [] m.ty = "unreq" -> IF WasLast(s, m.k, m.from)
                         THEN R(Forget(s, m.k, m.from), ToDeps(t, "unreq", m.k))
                         ELSE R(Forget(s, m.k, m.from), <<>>)
    [] OTHER -> R(s, <<>>)

Handle(t, s, m) == CASE kind[t] = "b" -> HandleBuild(t, s, m)
                     [] kind[t] = "s" -> HandleService(t, s, m)
                     [] OTHER -> HandleAggregate(t, s, m)

(* What each actor does at the top of its loop before it selects again; deterministic for build and
   aggregate actors; a service (re)start may fail.  Returns a set of results. *)
LoopTop(t, r) ==
  LET s == r.st IN
  CASE kind[t] = "b" ->
         IF ShouldExec(s, "b") /\ s.bpc = "none"
         THEN {[r EXCEPT !.st = [s EXCEPT !.toExec = FALSE, !.executed = FALSE, !.bpc = "check"], !.begun = TRUE]}
         ELSE {r}
    [] kind[t] = "s" ->
         IF ShouldExec(s, "s")
         THEN \* set_execution_started; restart_service (stop old, spawn new); notify_success / failed
              {[r EXCEPT !.st = [s EXCEPT !.toExec = FALSE, !.executed = TRUE, !.up = TRUE],
                         !.out = r.out \o ToSet(t, s.reqS, "ok", "s", TRUE),
                         !.started = TRUE]}
              \cup (IF Failures
                    THEN {[r EXCEPT !.st = [s EXCEPT !.toExec = FALSE, !.executed = FALSE, !.up = FALSE],
                                    !.out = r.out \o <<Err(t)>>, !.svcFail = TRUE]}
                    ELSE {})
         ELSE {r}
    [] OTHER -> {r}

-----------------------------------------------------------------------------
(* Channel plumbing *)

ChanLen == LET RECURSIVE Sum(_)
               Sum(S) == IF S = {} THEN 0 ELSE LET x == CHOOSE y \in S : TRUE IN Len(out[x]) + Sum(S \ {x})
           IN Sum(T)

\* the actor is at its select! (not suspended in a send)
AtSelect(t) == t \in launched /\ alive[t] /\ pend[t] = <<>>

\* effect of a handler result r of actor t on the shared variables
Emit(t, r) ==
  /\ st' = [st EXCEPT ![t] = r.st]
  /\ IF CapChan = 0
     THEN out' = [out EXCEPT ![t] = @ \o r.out] /\ pend' = pend
     ELSE pend' = [pend EXCEPT ![t] = r.out] /\ out' = out

\* a suspended send().await completes: target_actor_helper.rs:84-89
Flush(t) ==
  /\ CapChan # 0 /\ t \in launched /\ alive[t] /\ pend[t] # <<>> /\ ChanLen < CapChan
  /\ out' = [out EXCEPT ![t] = Append(@, Head(pend[t]))]
  /\ pend' = [pend EXCEPT ![t] = Tail(@)]
  /\ UNCHANGED <<cfgVars, st, inbox, invalSlot, termSlot, launched, alive, rootVars, envVars, obsVars>>

-----------------------------------------------------------------------------
(* Observation bookkeeping shared by the actions *)

ObsRecv(t, m, r) ==
  /\ word' = IF m.ty \in {"ok", "inv"} THEN [word EXCEPT ![t][m.from][m.k] = m.ty] ELSE word
  /\ nStart' = IF r.started THEN [nStart EXCEPT ![t] = @ + 1] ELSE nStart
  /\ ready' = IF r.started THEN [ready EXCEPT ![t] = TRUE] ELSE ready
  /\ failed' = IF r.svcFail THEN [failed EXCEPT ![t] = TRUE]
               ELSE IF r.started THEN [failed EXCEPT ![t] = FALSE] ELSE failed
  /\ proc' = IF r.started THEN [proc EXCEPT ![t] = 1] ELSE IF r.svcFail \/ r.stopped THEN [proc EXCEPT ![t] = 0] ELSE proc
  /\ stale' = IF r.started \/ r.begun THEN [stale EXCEPT ![t] = {}] ELSE stale
  \* what a service (re)start - successful or not - was decided on (for builds: BuildSpawn)
  /\ cap' = IF r.started \/ r.svcFail THEN [cap EXCEPT ![t] = EffIn(t)] ELSE cap

\* step monitors (C01, C07): evaluated on the pre-state plus the word just received
WordAfter(t, m) == IF m.ty \in {"ok", "inv"} THEN [word[t] EXCEPT ![m.from][m.k] = m.ty] ELSE word[t]

StartOK(t, w) ==
  /\ \A d \in deps[t] : \A k \in EK : w[d][k] = "ok"
  /\ ~Watch => /\ \A d \in EffDeps(t) : ready[d]
               /\ \A d \in TransDeps(t) : ~failed[d]

AggOK(t, w, k) == \A d \in deps[t] : w[d][k] = "ok"

MonRecv(t, m, r) ==
  viol' = viol \cup (IF (r.started \/ r.svcFail \/ r.begun) /\ ~StartOK(t, WordAfter(t, m)) THEN {"StartSafe"} ELSE {})
               \cup (IF \E k \in r.aggOk : ~AggOK(t, WordAfter(t, m), k) THEN {"AggForwardSafe"} ELSE {})

-----------------------------------------------------------------------------
(* Actor actions *)

\* the inbox arm of select!
Recv(t) ==
  /\ AtSelect(t) /\ inbox[t] # <<>>
  /\ LET m == Head(inbox[t]) IN
     \E r \in LoopTop(t, Handle(t, st[t], m)) :
       /\ Emit(t, r)
       /\ ObsRecv(t, m, r)
       /\ MonRecv(t, m, r)
  /\ inbox' = [inbox EXCEPT ![t] = Tail(@)]
  /\ UNCHANGED <<cfgVars, invalSlot, termSlot, launched, alive, rootVars, envNoCap, nSkip>>

\* the target_invalidated_events arm (build and service actors only)
RecvInval(t) ==
  /\ AtSelect(t) /\ invalSlot[t] /\ kind[t] # "a"
  /\ invalSlot' = [invalSlot EXCEPT ![t] = FALSE]
  /\ \E r \in LoopTop(t, NotifyInvalidated(t, st[t], kind[t])) :
       /\ Emit(t, r)
       /\ ObsRecv(t, [ty |-> "none"], r)
       /\ viol' = viol \cup (IF (r.started \/ r.svcFail \/ r.begun) /\ ~StartOK(t, word[t]) THEN {"StartSafe"} ELSE {})
  /\ UNCHANGED <<cfgVars, inbox, termSlot, launched, alive, rootVars, envNoCap, nSkip>>

\* the termination_events arm
RecvTerm(t) ==
  /\ AtSelect(t) /\ termSlot[t]
  /\ termSlot' = [termSlot EXCEPT ![t] = FALSE]
  /\ IF kind[t] = "b" /\ st[t].bpc # "none"
     THEN \* an ongoing build is cancelled (try_send on a capacity-1 channel); the actor stays
          /\ st' = [st EXCEPT ![t].termSeen = TRUE, ![t].cancelSent = TRUE]
          /\ UNCHANGED <<alive, proc>>
     ELSE \* break; a service actor stops its process (kill, then reap) before returning
          /\ st' = [st EXCEPT ![t].termSeen = TRUE, ![t].up = FALSE]
          /\ alive' = [alive EXCEPT ![t] = FALSE]
          /\ proc' = IF kind[t] = "s" THEN [proc EXCEPT ![t] = 0] ELSE proc
  /\ UNCHANGED <<cfgVars, inbox, pend, out, invalSlot, launched, rootVars, envVars,
                 nStart, nSkip, ready, failed, word, viol, stale>>

(* --- the build future (incremental::run around builder::build_target), polled by the same select! --- *)

BuildStep(t) == AtSelect(t) /\ kind[t] = "b"

\* incremental/mod.rs:29-39  check, and on a miss delete the record
BuildCheck(t) ==
  /\ BuildStep(t) /\ st[t].bpc = "check"
  /\ IF rec[t] = EffIn(t)
     THEN /\ st' = [st EXCEPT ![t].bpc = "done_skip"]
          /\ UNCHANGED rec
     ELSE /\ st' = [st EXCEPT ![t].bpc = "capture"]
          /\ rec' = [rec EXCEPT ![t] = NoRec]
  /\ UNCHANGED <<cfgVars, inbox, pend, out, invalSlot, termSlot, launched, alive, rootVars,
                 signalled, sigUsed, inVer, gen, cap, saw, outOf, notif, nChanges, obsVars>>

\* capture of the input state (repair of F3), then builder::build_target spawns the shell
BuildSpawn(t) ==
  /\ BuildStep(t) /\ st[t].bpc = "capture"
  /\ cap' = [cap EXCEPT ![t] = EffIn(t)]
  /\ \/ /\ st' = [st EXCEPT ![t].bpc = "script"]
        /\ nStart' = [nStart EXCEPT ![t] = @ + 1]
        /\ proc' = [proc EXCEPT ![t] = @ + 1]
        \* F10 (open finding): an Invalidated received between the loop-top test and the spawn is not acted upon
        /\ viol' = viol \cup (IF ~StartOK(t, word[t]) THEN {"StartSafeAtSpawn"} ELSE {})
     \/ /\ Failures          \* "Failed to spawn build command"
        /\ st' = [st EXCEPT ![t].bpc = "done_fail"]
        /\ UNCHANGED <<nStart, proc, viol>>
  /\ UNCHANGED <<cfgVars, inbox, pend, out, invalSlot, termSlot, launched, alive, rootVars,
                 signalled, sigUsed, inVer, gen, rec, saw, outOf, notif, nChanges,
                 nSkip, ready, failed, word, stale>>

\* the script reads its inputs (environment step; happens whether or not the actor is at select)
ScriptRead(t) ==
  /\ kind[t] = "b" /\ st[t].bpc = "script"
  /\ saw' = [saw EXCEPT ![t] = EffIn(t)]
  /\ st' = [st EXCEPT ![t].bpc = "running"]
  /\ UNCHANGED <<cfgVars, inbox, pend, out, invalSlot, termSlot, launched, alive, rootVars,
                 signalled, sigUsed, inVer, gen, rec, cap, outOf, notif, nChanges, obsVars>>

\* the script exits; build_target's select! sees the status (unless it takes the cancellation first)
ScriptFinish(t) ==
  /\ BuildStep(t) /\ st[t].bpc = "running" /\ t \notin slow
  /\ proc' = [proc EXCEPT ![t] = @ - 1]
  /\ \/ /\ st' = [st EXCEPT ![t].bpc = "record"]
        /\ gen' = [gen EXCEPT ![t] = @ + 1]
        /\ outOf' = [outOf EXCEPT ![t] = saw[t]]
     \/ /\ Failures
        /\ st' = [st EXCEPT ![t].bpc = "done_fail"]
        /\ UNCHANGED <<gen, outOf>>
  /\ UNCHANGED <<cfgVars, inbox, pend, out, invalSlot, termSlot, launched, alive, rootVars,
                 signalled, sigUsed, inVer, rec, cap, saw, notif, nChanges,
                 nStart, nSkip, ready, failed, word, viol, stale>>

\* builder.rs:24-33  cancellation wins: kill, reap, report Cancelled
BuildCancelled(t) ==
  /\ BuildStep(t) /\ st[t].bpc \in {"script", "running"} /\ st[t].cancelSent
  /\ st' = [st EXCEPT ![t].bpc = "done_cancel"]
  /\ proc' = [proc EXCEPT ![t] = @ - 1]
  /\ UNCHANGED <<cfgVars, inbox, pend, out, invalSlot, termSlot, launched, alive, rootVars, envVars,
                 nStart, nSkip, ready, failed, word, viol, stale>>

\* incremental/mod.rs:44-63  compute / write the record
BuildRecord(t) ==
  /\ BuildStep(t) /\ st[t].bpc = "record"
  /\ rec' = [rec EXCEPT ![t] = IF RecordBefore THEN cap[t] ELSE EffIn(t)]
  /\ st' = [st EXCEPT ![t].bpc = "done_ok"]
  /\ UNCHANGED <<cfgVars, inbox, pend, out, invalSlot, termSlot, launched, alive, rootVars,
                 signalled, sigUsed, inVer, gen, cap, saw, outOf, notif, nChanges, obsVars>>

\* the build-result arm of select!  build_target_actor.rs:102-125
BuildResult(t) ==
  /\ BuildStep(t) /\ st[t].bpc \in {"done_skip", "done_ok", "done_fail", "done_cancel"}
  /\ LET s == st[t]
         ph == s.bpc
         s0 == [s EXCEPT !.bpc = "none", !.cancelSent = FALSE]
         r0 == CASE ph = "done_fail" -> R([s0 EXCEPT !.executed = FALSE], <<Err(t)>>)
                 [] ph = "done_cancel" -> R(s0, <<>>)
                 [] OTHER -> \* notify_success
                      LET ex == ~s0.toExec
                      IN R([s0 EXCEPT !.executed = ex],
                           (IF ex THEN ToSet(t, s0.reqB, "ok", "b", TRUE) ELSE <<>>)
                             \o (IF Unrequests /\ ex THEN ToDeps(t, "unreq", "s") ELSE <<>>))
         \* a build that really re-ran has rebuilt outputs: whoever reaches it through aggregates must re-decide its run
         marked == IF ph = "done_ok"
                   THEN [u \in T |-> IF kind[u] # "a" /\ t \in EffDeps(u) THEN stale[u] \cup {t} ELSE stale[u]]
                   ELSE stale
     IN /\ IF s.termSeen
           THEN /\ Emit(t, r0)
                /\ alive' = [alive EXCEPT ![t] = FALSE]
                /\ viol' = viol /\ stale' = marked
           ELSE /\ \E r \in LoopTop(t, r0) :
                     /\ Emit(t, r)
                     /\ viol' = viol \cup (IF r.begun /\ ~StartOK(t, word[t]) THEN {"StartSafe"} ELSE {})
                     /\ stale' = IF r.begun THEN [marked EXCEPT ![t] = {}] ELSE marked
                /\ alive' = alive
        /\ nSkip' = IF ph = "done_skip" THEN [nSkip EXCEPT ![t] = @ + 1] ELSE nSkip
        /\ ready' = IF ph \in {"done_skip", "done_ok"} THEN [ready EXCEPT ![t] = TRUE] ELSE ready
        /\ failed' = IF ph = "done_fail" THEN [failed EXCEPT ![t] = TRUE]
                     ELSE IF ph \in {"done_skip", "done_ok"} THEN [failed EXCEPT ![t] = FALSE] ELSE failed
  /\ UNCHANGED <<cfgVars, inbox, invalSlot, termSlot, launched, rootVars, envVars,
                 nStart, word, proc>>

-----------------------------------------------------------------------------
(* Relay and root: engine::run, execute_once / watch, main.rs:98-109 *)

\* target_actors.rs:64-75  two Requested messages per root, straight into the inbox
RootRequest ==
  /\ rootPhase = "requesting"
  /\ LET i == reqIdx \div 2 + 1
         t == RootSeq[i]
         k == IF reqIdx % 2 = 0 THEN "b" ELSE "s"
     IN /\ CapInbox = 0 \/ Len(inbox[t]) < CapInbox
        /\ inbox' = [inbox EXCEPT ![t] = Append(@, M(t, "req", k, ROOT, FALSE))]
        /\ launched' = launched \cup {t}
        /\ reqIdx' = reqIdx + 1
        /\ rootPhase' = IF reqIdx + 1 = 2 * Len(RootSeq) THEN "looping" ELSE "requesting"
  /\ UNCHANGED <<cfgVars, st, pend, out, invalSlot, termSlot, alive, hold,
                 unavB, unavS, svcRoots, termRecv, exitStatus, errTarget, envVars, obsVars>>

LoopCond == IF Watch THEN TRUE ELSE ~(termRecv \/ (unavS = {} /\ unavB = {}))

RootConsume(m) ==
  IF Watch THEN UNCHANGED <<unavB, unavS, svcRoots>>
  ELSE /\ unavB' = IF m.ty = "ok" /\ m.k = "b" THEN unavB \ {m.from} ELSE unavB
       /\ unavS' = IF m.ty = "ok" /\ m.k = "s" THEN unavS \ {m.from} ELSE unavS
       /\ svcRoots' = IF m.ty = "ok" /\ m.k = "s" /\ m.act THEN svcRoots \cup {m.from} ELSE svcRoots

\* the relay receives the i-th message of sender s; the design uses i = 1 (abstraction 1: any sender's oldest
\* message); trace validation may use the oldest message of s *for a given destination* (deliveries to different
\* inboxes commute, and the harness needs that freedom to be deterministic in spite of hash-set iteration order)
RemoveAt(q, i) == SubSeq(q, 1, i - 1) \o SubSeq(q, i + 1, Len(q))
RelayTakeAt(s, i) ==
  /\ rootPhase = "looping" /\ LoopCond /\ hold = NoMsg /\ i \in 1..Len(out[s])
  /\ LET m == out[s][i] IN
       /\ out' = [out EXCEPT ![s] = RemoveAt(@, i)]
       /\ CASE m.ty = "err" ->
                 IF Watch
                 THEN UNCHANGED <<hold, rootPhase, exitStatus, errTarget, unavB, unavS, svcRoots, inbox, launched>>
                 ELSE /\ rootPhase' = "terminating" /\ exitStatus' = 1 /\ errTarget' = m.from
                      /\ UNCHANGED <<hold, unavB, unavS, svcRoots, inbox, launched>>
            [] m.dest = ROOT ->
                 /\ RootConsume(m)
                 /\ UNCHANGED <<hold, rootPhase, exitStatus, errTarget, inbox, launched>>
            [] OTHER ->
                 IF CapInbox = 0
                 THEN /\ inbox' = [inbox EXCEPT ![m.dest] = Append(@, m)]
                      /\ launched' = launched \cup {m.dest}
                      /\ UNCHANGED <<hold, rootPhase, exitStatus, errTarget, unavB, unavS, svcRoots>>
                 ELSE /\ hold' = m
                      /\ launched' = launched \cup {m.dest}
                      /\ UNCHANGED <<rootPhase, exitStatus, errTarget, unavB, unavS, svcRoots, inbox>>
  /\ UNCHANGED <<cfgVars, st, pend, invalSlot, termSlot, alive, reqIdx, termRecv, envVars, obsVars>>

RelayTake(s) == RelayTakeAt(s, 1)

\* target_actors.send().await completes
RelayDeliver ==
  /\ hold # NoMsg /\ Len(inbox[hold.dest]) < CapInbox
  /\ inbox' = [inbox EXCEPT ![hold.dest] = Append(@, hold)]
  /\ hold' = NoMsg
  /\ UNCHANGED <<cfgVars, st, pend, out, invalSlot, termSlot, launched, alive,
                 rootPhase, reqIdx, unavB, unavS, svcRoots, termRecv, exitStatus, errTarget, envVars, obsVars>>

\* the termination arm of the relay's select!
RootSeesSignal ==
  /\ rootPhase = "looping" /\ LoopCond /\ hold = NoMsg /\ signalled
  /\ signalled' = FALSE
  /\ IF Watch THEN rootPhase' = "terminating" /\ exitStatus' = 0 /\ UNCHANGED termRecv
     ELSE termRecv' = TRUE /\ UNCHANGED <<rootPhase, exitStatus>>
  /\ UNCHANGED <<cfgVars, actVars, hold, reqIdx, unavB, unavS, svcRoots, errTarget,
                 sigUsed, inVer, gen, rec, cap, saw, outOf, notif, nChanges, obsVars>>

\* execute_once: loop left; keep alive iff a root reported an actual service
RootLoopExit ==
  /\ ~Watch /\ rootPhase = "looping" /\ ~LoopCond /\ hold = NoMsg
  /\ IF ~termRecv /\ svcRoots # {}
     THEN rootPhase' = "waitsig" /\ UNCHANGED exitStatus
     ELSE rootPhase' = "terminating" /\ exitStatus' = 0
  /\ UNCHANGED <<cfgVars, actVars, hold, reqIdx, unavB, unavS, svcRoots, termRecv, errTarget, envVars, obsVars>>

RootWaitSignal ==
  /\ rootPhase = "waitsig" /\ signalled
  /\ signalled' = FALSE
  /\ rootPhase' = "terminating" /\ exitStatus' = 0
  /\ UNCHANGED <<cfgVars, actVars, hold, reqIdx, unavB, unavS, svcRoots, termRecv, errTarget,
                 sigUsed, inVer, gen, rec, cap, saw, outOf, notif, nChanges, obsVars>>

\* TargetActors::terminate: one termination message per launched actor ...
Terminate ==
  /\ rootPhase = "terminating"
  /\ termSlot' = [t \in T |-> t \in launched]
  /\ rootPhase' = "joining"
  /\ UNCHANGED <<cfgVars, st, inbox, pend, out, invalSlot, launched, alive, hold, reqIdx,
                 unavB, unavS, svcRoots, termRecv, exitStatus, errTarget, envVars, obsVars>>

\* ... then join_all, then main returns
RootExit ==
  /\ rootPhase = "joining" /\ \A t \in launched : ~alive[t]
  /\ rootPhase' = "exited"
  /\ UNCHANGED <<cfgVars, actVars, hold, reqIdx, unavB, unavS, svcRoots, termRecv, exitStatus, errTarget,
                 envVars, obsVars>>

-----------------------------------------------------------------------------
(* Environment *)

Signal ==
  /\ Signals /\ ~sigUsed /\ rootPhase # "exited"
  /\ sigUsed' = TRUE /\ signalled' = TRUE
  /\ UNCHANGED <<cfgVars, actVars, rootVars, inVer, gen, rec, cap, saw, outOf, notif, nChanges, obsVars>>

\* an input file of t is edited; its watcher thread will try to notify
FileChange(t) ==
  /\ Watch /\ nChanges < MaxChanges /\ kind[t] # "a" /\ t \in launched
  /\ inVer' = [inVer EXCEPT ![t] = @ + 1]
  /\ notif' = [notif EXCEPT ![t] = TRUE]
  /\ nChanges' = nChanges + 1
  /\ UNCHANGED <<cfgVars, actVars, rootVars, signalled, sigUsed, gen, rec, cap, saw, outOf, obsVars>>

\* watcher.rs:101-108  try_send into the capacity-1 slot; dropped when full
Notify(t) ==
  /\ notif[t]
  /\ notif' = [notif EXCEPT ![t] = FALSE]
  /\ invalSlot' = [invalSlot EXCEPT ![t] = TRUE]
  /\ UNCHANGED <<cfgVars, st, inbox, pend, out, termSlot, launched, alive, rootVars,
                 signalled, sigUsed, inVer, gen, rec, cap, saw, outOf, nChanges, obsVars>>

\* a producer's rebuilt outputs are inputs of its inheriting consumers: their watchers fire too
OutputNotify(t, c) ==
  /\ Watch /\ Inherit /\ t \in inh[c] /\ c \in launched
  /\ st[t].bpc = "record"      \* the outputs have just been rewritten
  /\ ~notif[c] /\ rec[c] # NoRec /\ rec[c] # EffIn(c)
  /\ notif' = [notif EXCEPT ![c] = TRUE]
  /\ UNCHANGED <<cfgVars, actVars, rootVars, signalled, sigUsed, inVer, gen, rec, cap, saw, outOf, nChanges, obsVars>>

-----------------------------------------------------------------------------

Terminal == \/ rootPhase = "exited"
            \/ rootPhase = "waitsig" /\ ~signalled
            \/ Watch /\ rootPhase = "looping"

Done == Terminal /\ UNCHANGED vars

Internal ==
  \/ RootRequest \/ RelayDeliver \/ RootSeesSignal \/ RootLoopExit \/ RootWaitSignal \/ Terminate \/ RootExit
  \/ \E t \in T : \/ Flush(t) \/ RelayTake(t) \/ Recv(t) \/ RecvInval(t) \/ RecvTerm(t)
                  \/ BuildCheck(t) \/ BuildSpawn(t) \/ ScriptRead(t) \/ BuildCancelled(t)
                  \/ BuildRecord(t) \/ BuildResult(t) \/ Notify(t)

Env == \/ Signal
       \/ \E t \in T : ScriptFinish(t) \/ FileChange(t)

Next == Internal \/ Env \/ Done

-----------------------------------------------------------------------------

ZeroWord == [t \in T |-> [d \in T |-> [k \in EK |-> "none"]]]

Init ==
  /\ kind \in [T -> Kinds]
  /\ deps \in [T -> SUBSET T]
  /\ \A t \in T : deps[t] \subseteq 1..(t - 1)
  /\ roots \in (SUBSET T) \ {{}}
  /\ slow \in IF Slow THEN SUBSET {t \in T : kind[t] = "b"} ELSE {{}}
  /\ inh \in IF Inherit THEN [T -> SUBSET T] ELSE {[t \in T |-> {}]}
  /\ \A t \in T : inh[t] \subseteq {d \in deps[t] : kind[d] = "b"} /\ (kind[t] = "a" => inh[t] = {})
  /\ st = [t \in T |-> InitLocal(t)]
  /\ inbox = [t \in T |-> <<>>] /\ pend = [t \in T |-> <<>>] /\ out = [t \in T |-> <<>>]
  /\ invalSlot = [t \in T |-> FALSE] /\ termSlot = [t \in T |-> FALSE]
  /\ launched = {} /\ alive = [t \in T |-> TRUE]
  /\ hold = NoMsg /\ rootPhase = "requesting" /\ reqIdx = 0
  /\ unavB = roots /\ unavS = roots /\ svcRoots = {} /\ termRecv = FALSE
  /\ exitStatus = -1 /\ errTarget = 0
  /\ signalled = FALSE /\ sigUsed = FALSE
  /\ inVer = [t \in T |-> 0] /\ gen = [t \in T |-> 0]
  /\ rec \in [T -> {NoRec} \cup {<<0>> \o [i \in 1..n |-> 0] : n \in 0..N}]
  /\ \A t \in T : rec[t] \in {NoRec} \cup (IF Skips /\ kind[t] = "b" THEN {EffIn(t)} ELSE {})
  /\ cap = [t \in T |-> NoRec] /\ saw = [t \in T |-> NoRec]
  /\ outOf = [t \in T |-> rec[t]]
  /\ notif = [t \in T |-> FALSE] /\ nChanges = 0
  /\ nStart = [t \in T |-> 0] /\ nSkip = [t \in T |-> 0]
  /\ ready = [t \in T |-> FALSE] /\ failed = [t \in T |-> FALSE]
  /\ word = ZeroWord /\ proc = [t \in T |-> 0] /\ viol = {} /\ stale = [t \in T |-> {}]

Spec == Init /\ [][Next]_vars

-----------------------------------------------------------------------------
(* Properties *)

C == Closure(roots)

\* C01 StartSafe, AggForwardSafe; C07 (start part).  In watch mode the spawn-time form of StartSafe is the
\* open finding F10 (see DESIGN.md): it is required with StrictStart, tolerated otherwise.
NoStepViolation == viol \subseteq (IF Watch /\ ~StrictStart THEN {"StartSafeAtSpawn"} ELSE {})

\* C08: one-shot: nothing twice, nothing outside the closure
OnceOnly == ~Watch =>
  /\ \A t \in T : nStart[t] + nSkip[t] <= 1
  /\ \A t \in T \ C : nStart[t] + nSkip[t] = 0 /\ t \notin launched /\ rec[t] = outOf[t]

\* C04 (iii), C08, C20: a successful one-shot exit did everything, exactly once
ExitComplete ==
  (~Watch /\ rootPhase \in {"waitsig", "terminating", "joining", "exited"} /\ exitStatus # 1 /\ ~sigUsed) =>
      \A t \in C : /\ kind[t] = "b" => nStart[t] + nSkip[t] = 1 /\ ready[t]
                   /\ kind[t] = "s" => nStart[t] = 1 /\ ready[t]

\* C07: one-shot: status 1 iff it names a target that failed; no failure => no error exit
ExitStatusRight ==
  /\ exitStatus = 1 => errTarget \in T /\ failed[errTarget]
  /\ (~Watch /\ rootPhase = "exited" /\ exitStatus = 0 /\ ~sigUsed) => \A t \in C : ~failed[t]

\* C11, C20: keep-alive exactly when a service is behind a requested target
KeepAlive ==
  /\ rootPhase = "waitsig" => \E r \in roots : ServiceBehind(r)
  /\ (~Watch /\ rootPhase \in {"terminating", "joining", "exited"} /\ exitStatus = 0 /\ ~sigUsed)
        => ~\E r \in roots : ServiceBehind(r)

\* C11: a service that builds depend on is up while they run
ServiceUpForDependents ==
  (~Watch /\ rootPhase \notin {"joining", "exited"}) =>
      \A t \in T : (kind[t] = "b" /\ st[t].bpc \in {"script", "running"})
                 => \A d \in EffDeps(t) : kind[d] = "s" => st[d].up

\* C11: never two instances; C10: nothing alive at exit, every actor joined
SingleInstance == \A t \in T : proc[t] <= 1
CleanExit == rootPhase = "exited" => /\ \A t \in T : proc[t] = 0
                                     /\ \A t \in launched : ~alive[t]
                                     /\ exitStatus \in {0, 1}

\* C06: watch mode, nothing in flight => everything requested that can be up to date is
Quiescent ==
  /\ \A t \in T : /\ out[t] = <<>> /\ pend[t] = <<>> /\ inbox[t] = <<>>
                  /\ ~invalSlot[t] /\ ~notif[t] /\ st[t].bpc = "none"
  /\ hold = NoMsg /\ rootPhase = "looping" /\ ~signalled

\* t cannot be expected to be up to date: something it depends on failed or never finishes, or t itself never finishes,
\* or the last execution of t failed AND that execution was decided on the current inputs ("re-run by an execution that
\* started after the last relevant change": a failure before the last change does not excuse anything)
Blocked(t) == \/ \E d \in TransDeps(t) : failed[d] \/ d \in slow
              \/ t \in slow
              \/ failed[t] /\ cap[t] = EffIn(t)

UpToDate ==
  (Watch /\ Quiescent) =>
     \A t \in C : ~Blocked(t) =>
        /\ kind[t] = "b" => outOf[t] = EffIn(t) /\ st[t].executed
        /\ kind[t] = "s" => st[t].executed /\ st[t].up
        \* ... by a run decided after every build it reaches (through aggregates) finished its own re-run
        /\ kind[t] # "a" => stale[t] = {}

\* temporal properties (checked under fairness, see MC_Engine)
Terminates == <>(rootPhase \in {"exited", "waitsig"})
SignalLeadsToExit == sigUsed ~> (rootPhase = "exited")
Converges == <>[](Quiescent \/ rootPhase # "looping")

\* C17: a target that does not depend on a slow one gets done whatever the slow ones do
IndepDone(t) == \/ t \notin C \/ Blocked(t) \/ kind[t] = "a" \/ ready[t]
                \/ sigUsed \/ exitStatus = 1
Independent == \A t \in T : <>IndepDone(t)

(* Fairness: every zinoma-internal step is weakly fair; scripts that are not slow finish. *)
FairInternal ==
  /\ WF_vars(RootRequest) /\ WF_vars(RelayDeliver) /\ WF_vars(RootSeesSignal) /\ WF_vars(RootLoopExit)
  /\ WF_vars(RootWaitSignal) /\ WF_vars(Terminate) /\ WF_vars(RootExit)
  /\ \A t \in T : /\ WF_vars(Flush(t)) /\ WF_vars(RelayTake(t)) /\ WF_vars(Recv(t))
                   /\ WF_vars(RecvInval(t)) /\ WF_vars(RecvTerm(t)) /\ WF_vars(BuildCheck(t))
                   /\ WF_vars(BuildSpawn(t)) /\ WF_vars(ScriptRead(t)) /\ WF_vars(BuildCancelled(t))
                   /\ WF_vars(BuildRecord(t)) /\ WF_vars(BuildResult(t)) /\ WF_vars(Notify(t))
FairScripts == \A t \in T : WF_vars(ScriptFinish(t))
FairSpec == Spec /\ FairInternal /\ FairScripts
FairSpecNoScripts == Spec /\ FairInternal

TypeOK ==
  /\ launched \subseteq T
  /\ rootPhase \in {"requesting", "looping", "waitsig", "terminating", "joining", "exited"}
  /\ \A t \in T : st[t].bpc \in {"none", "check", "capture", "script", "running", "record",
                                  "done_skip", "done_ok", "done_fail", "done_cancel"}
=============================================================================
