SPECIFICATION Spec
CONSTANTS
  Paths = {p1, p2}
  NT = 2
  MaxM = 1
  MaxC = 1
  MaxOps = 2
  MaxInv = 3
  RecordBefore = TRUE
  GuardNoInput = TRUE
  Foreigns = TRUE
INVARIANTS TypeOK FullOnlyFromSuccess SkipMeansUpToDate SkipComplete NoInputNoRecord
PROPERTIES RecIndependent
CHECK_DEADLOCK FALSE
