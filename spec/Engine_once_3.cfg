SPECIFICATION Spec
CONSTANTS
  N = 3
  Watch = FALSE
  MaxChanges = 0
  Failures = FALSE
  Slow = FALSE
  Signals = FALSE
  Skips = FALSE
  Inherit = FALSE
  CapChan = 0
  CapInbox = 0
  AckLate = TRUE
  RecordBefore = TRUE
  StrictStart = FALSE
  Unrequests = FALSE
INVARIANTS
  TypeOK NoStepViolation OnceOnly ExitComplete ExitStatusRight KeepAlive ServiceUpForDependents SingleInstance CleanExit
CHECK_DEADLOCK TRUE
