----------------------------- MODULE Gen_Engine -----------------------------
(***************************************************************************)
(* Behaviour generator: Engine.tla with a history variable that records,   *)
(* for every step that the harness can impose on the real engine, the      *)
(* stimulus that imposes it - at the instant the step is CONSUMED by the   *)
(* actor or the root (a delivery is logged when the actor receives it, a   *)
(* notification when the actor takes it, the signal when the root sees     *)
(* it, a held phase of incremental::run when it proceeds).  Run with       *)
(* tlc -simulate; each finished behaviour is printed once as JSON and is   *)
(* then replayed, step by step, into the real code by zv (mode replay).    *)
(***************************************************************************)
EXTENDS Engine, Json

VARIABLES hist, printed, rec0
gvars == <<vars, hist, printed, rec0>>

Name(t) == IF t = ROOT THEN "ROOT" ELSE "t" \o ToString(t)

Stim(s) == hist' = Append(hist, s) /\ printed' = printed /\ rec0' = rec0
Quiet == hist' = hist /\ printed' = printed /\ rec0' = rec0

GNext ==
  \/ RootRequest /\ Quiet
  \/ RootLoopExit /\ Quiet
  \/ Terminate /\ Quiet
  \/ RootExit /\ Quiet
  \/ (RootSeesSignal \/ RootWaitSignal) /\ Stim("S")
  \/ Signal /\ Quiet                      \* the harness sends it when the root is to see it
  \/ \E t \in T :
       \/ /\ RelayTakeAt(t, 1)
          /\ IF Head(out[t]).dest \in {ROOT, -1} THEN Stim("D:" \o Name(t) \o ">ROOT") ELSE Quiet
       \/ /\ Recv(t) /\ (failed'[t] => failed[t])
          /\ IF Head(inbox[t]).from = ROOT THEN Quiet
             ELSE Stim("D:" \o Name(Head(inbox[t]).from) \o ">" \o Name(t))
       \/ RecvInval(t) /\ (failed'[t] => failed[t]) /\ Stim("N:" \o Name(t))
       \/ RecvTerm(t) /\ Quiet
       \/ BuildCheck(t) /\ Quiet
       \* (launch failures of the shell and of services cannot be imposed on the harness: not generated)
       \/ BuildSpawn(t) /\ st'[t].bpc = "script" /\ Stim("G:" \o Name(t))              \* held at incr_checked
       \/ ScriptRead(t) /\ Quiet
       \/ /\ ScriptFinish(t)
          /\ Stim("F:" \o Name(t) \o (IF st'[t].bpc = "record" THEN ":ok" ELSE ":fail"))
       \/ BuildCancelled(t) /\ Quiet
       \/ BuildRecord(t) /\ Stim("G:" \o Name(t))             \* held at incr_script_done
       \/ /\ BuildResult(t)
          /\ IF st[t].bpc = "done_skip" THEN Stim("G:" \o Name(t)) ELSE Quiet   \* skip decision held at incr_checked
       \/ FileChange(t) /\ Stim("E:" \o Name(t))
       \/ Notify(t) /\ Quiet
  \/ /\ Terminal /\ ~printed
     /\ PrintT("BEHAVIOUR " \o ToJson([n |-> N, kind |-> kind, deps |-> [t \in T |-> SortedSeq(deps[t])], roots |-> SortedSeq(roots),
                                        watch |-> Watch, slow |-> SortedSeq(slow), inh |-> [t \in T |-> SortedSeq(inh[t])],
                                        rec |-> SortedSeq(rec0),
                                        hist |-> hist, final |-> rootPhase, status |-> exitStatus]))
     /\ printed' = TRUE /\ hist' = hist /\ rec0' = rec0 /\ UNCHANGED vars

GInit == Init /\ hist = <<>> /\ printed = FALSE /\ rec0 = {t \in T : rec[t] # NoRec}
GSpec == GInit /\ [][GNext]_gvars
=============================================================================
