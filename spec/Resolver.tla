------------------------------- MODULE Resolver -------------------------------
(***************************************************************************)
(* config/ir.rs try_into_domain_targets: the depth-first add_target with   *)
(* its ancestor chain, one step per call / return, on every directed       *)
(* graph (cycles and self-loops included) over targets spread over two     *)
(* projects, with both reference kinds, bare and qualified references,     *)
(* unknown projects and targets.  Checked against ConfigRules.             *)
(***************************************************************************)
EXTENDS ConfigRules

CONSTANTS MaxRefs,     \* references of each kind per target
          MaxTargets   \* number of existing targets (out of a universe of three)

VARIABLES G, R,        \* the graph and the requested ids (chosen in Init)
          stack,       \* Seq([t, todo, outs])  todo: resolved ids still to visit, in order
          domain,      \* domain_targets: completed targets
          removed,     \* yaml targets already taken out of the project maps
          ri,          \* next requested id
          st, steps

vars == <<G, R, stack, domain, removed, ri, st, steps>>

RootKeys == {"_", "R"}
Pool(root) == {[q |-> "", n |-> "a"], [q |-> "", n |-> "b"], [q |-> "S", n |-> "a"], [q |-> "Z", n |-> "a"],
               [q |-> "", n |-> "c"]} \cup (IF root = "R" THEN {[q |-> "R", n |-> "a"]} ELSE {})
SeqsUpTo(S, k) == UNION {[1..n -> S] : n \in 0..k}

Init ==
  /\ \E root \in RootKeys :
     LET U == {Id(root, "a"), Id(root, "b"), Id("S", "a")} IN
     \E ids \in {x \in (SUBSET U) \ {{}} : Cardinality(x) <= MaxTargets} :
       /\ G \in [pkeys : {{root, "S"}}, root : {root}, ids : {ids},
                 proj : {[t \in ids |-> IF t = Id("S", "a") THEN "S" ELSE root]},
                 name : {[t \in ids |-> IF t = Id(root, "b") THEN "b" ELSE "a"]},
                 kind : [ids -> {"b", "s", "a"}],
                 deps : [ids -> SeqsUpTo(Pool(root), MaxRefs)],
                 outs : [ids -> SeqsUpTo(Pool(root), MaxRefs)]]
       /\ R \in {<<x>> : x \in U} \cup {<<x, y>> : x \in ids, y \in ids}
  /\ \A t \in G.ids : G.kind[t] = "a" => G.outs[t] = <<>>           \* aggregates have no input
  /\ stack = <<>> /\ domain = {} /\ removed = {} /\ ri = 1 /\ st = "run" /\ steps = 0

Chain == {stack[i].t : i \in 1..Len(stack)}

ResolvedSeq(t) == [i \in 1..(Len(G.deps[t]) + Len(G.outs[t])) |->
                     IF i <= Len(G.deps[t]) THEN Resolve(G.proj[t], G.deps[t][i])
                     ELSE Resolve(G.proj[t], G.outs[t][i - Len(G.deps[t])])]

\* add_target(t): the four tests of ir.rs:59-86, in the code's order
Enter(t, popTodo) ==
  /\ steps' = steps + 1
  /\ IF t \in domain
     THEN /\ stack' = IF popTodo THEN [stack EXCEPT ![Len(stack)].todo = Tail(@)] ELSE stack
          /\ UNCHANGED <<domain, removed, st>>
     ELSE IF t \in Chain \/ t \notin G.ids \/ t \in removed
          THEN st' = "err" /\ UNCHANGED <<stack, domain, removed>>
          ELSE /\ removed' = removed \cup {t}
               /\ stack' = Append(IF popTodo THEN [stack EXCEPT ![Len(stack)].todo = Tail(@)] ELSE stack,
                                  [t |-> t, todo |-> ResolvedSeq(t), outs |-> OutRefs(G, t)])
               /\ UNCHANGED <<domain, st>>

NextRoot == /\ st = "run" /\ stack = <<>> /\ ri <= Len(R)
            /\ Enter(R[ri], FALSE) /\ ri' = ri + 1 /\ UNCHANGED <<G, R>>

Descend == /\ st = "run" /\ stack # <<>> /\ stack[Len(stack)].todo # <<>>
           /\ Enter(Head(stack[Len(stack)].todo), TRUE) /\ UNCHANGED <<G, R, ri>>

\* all dependencies added: X.output of a non-build target is refused, otherwise the target is inserted
Return == /\ st = "run" /\ stack # <<>> /\ stack[Len(stack)].todo = <<>>
          /\ steps' = steps + 1
          /\ LET f == stack[Len(stack)] IN
             IF \E x \in f.outs : G.kind[x] # "b"
             THEN st' = "err" /\ UNCHANGED <<stack, domain>>
             ELSE /\ domain' = domain \cup {f.t} /\ stack' = SubSeq(stack, 1, Len(stack) - 1) /\ st' = st
          /\ UNCHANGED <<G, R, removed, ri>>

Finish == /\ st = "run" /\ stack = <<>> /\ ri > Len(R)
          /\ st' = "ok" /\ UNCHANGED <<G, R, stack, domain, removed, ri, steps>>

Next == NextRoot \/ Descend \/ Return \/ Finish \/ (st # "run" /\ UNCHANGED vars)
Spec == Init /\ [][Next]_vars /\ WF_vars(Next)

Rset == SeqToSet(R)

\* C09: refused exactly when the rules say so; otherwise exactly the closure is produced
VerdictRight == /\ st = "err" => Broken(G, Rset)
                /\ st = "ok" => ~Broken(G, Rset) /\ domain = Reach(G, Rset)
\* "a cyclic project never hangs": the number of steps is bounded by the size of the graph
Bounded == steps <= 2 * Cardinality(G.ids) * (2 * MaxRefs + 1) + 2 * Len(R) + 2
Terminates == <>(st # "run")
=============================================================================
