-------------------------------- MODULE CliObs --------------------------------
(***************************************************************************)
(* Observable specification of one invocation of the zinoma binary         *)
(* (src/main.rs: load, resolve, optionally clean, run) as a function of    *)
(* the project graph, the command line and what was on disk, and its       *)
(* monitor over recorded invocation sequences (IOEnv.TRACE).  Uses         *)
(* ConfigRules for names, closure and refusal.  Scripts in the generated   *)
(* projects always succeed and there is no requested service, so every     *)
(* accepted invocation must exit 0.                                        *)
(***************************************************************************)
EXTENDS ConfigRules, Json, IOUtils

Rec == ndJsonDeserialize(IOEnv.TRACE)
VARIABLES l, upToDate       \* upToDate: set of build targets whose last run completed and whose inputs were not edited since
vars == <<l, upToDate>>

Viol(prop, sig) ==
  /\ PrintT("MONITOR-VIOLATION " \o prop \o " @" \o ToString(l) \o " " \o ToString(sig))
  /\ TLCSet(1, TLCGet(1) + 1)
CheckAll(props, sig, ok) == IF ok THEN TRUE ELSE \A p \in props : Viol(p, sig)

Graph(m) ==
  LET ts == SeqToSet(m.targets) IN
  [pkeys |-> SeqToSet(m.pkeys), root |-> m.root, ids |-> {t.id : t \in ts},
   proj |-> [i \in {t.id : t \in ts} |-> (CHOOSE t \in ts : t.id = i).proj],
   name |-> [i \in {t.id : t \in ts} |-> (CHOOSE t \in ts : t.id = i).name],
   kind |-> [i \in {t.id : t \in ts} |-> (CHOOSE t \in ts : t.id = i).kind],
   deps |-> [i \in {t.id : t \in ts} |-> (CHOOSE t \in ts : t.id = i).deps],
   outs |-> [i \in {t.id : t \in ts} |-> (CHOOSE t \in ts : t.id = i).outs]]

Count(s, x) == Cardinality({i \in 1..Len(s) : s[i] = x})

Inv(e) ==
  LET G == Graph(e.m.graph)
      o == e.obs
      req == SeqToSet(e.m.req)
      builds == {t \in G.ids : G.kind[t] = "b"}
      badName == \E r \in req : r \notin CliNames(G)
      R == {Denotes(G, r) : r \in req \cap CliNames(G)}
      \* without targets (--clean alone) every target of every project is resolved
      Rall == IF req = {} THEN G.ids ELSE R
      reject == e.m.invalid \/ badName \/ Broken(G, Rall)
      C == Reach(G, Rall)
      before == SeqToSet(o.stateBefore)   after == SeqToSet(o.stateAfter)
      outB == SeqToSet(o.outBefore)       outA == SeqToSet(o.outAfter)
      ran == SeqToSet(o.ran)              skipped == SeqToSet(o.skipped)
      edited == SeqToSet(e.m.edited)
      fresh == upToDate \ edited
  IN
  /\ CheckAll({"C14"}, <<"panic", e.id>>, ~o.panic)
  /\ IF reject
     THEN /\ CheckAll({"C09", "C14"}, <<"broken-project-not-refused", e.id>>, o.status # 0)
          /\ CheckAll({"C09", "C14"}, <<"script-ran-although-refused", e.id, ran>>, ran = {})
          /\ CheckAll({"C09", "C14", "C12"}, <<"something-deleted-although-refused", e.id>>, after = before /\ outA = outB)
          /\ upToDate' = fresh
     ELSE IF req = {}
     THEN \* --clean alone: all outputs and all recorded state of all projects go, nothing runs
          /\ CheckAll({"C12"}, <<"clean-alone-failed", e.id>>, o.status = 0)
          /\ CheckAll({"C12"}, <<"clean-alone-left-outputs-or-state", e.id, after, outA>>, after = {} /\ outA = {})
          /\ CheckAll({"C12", "C08"}, <<"clean-alone-ran-scripts", e.id>>, ran = {})
          /\ upToDate' = {}
     ELSE /\ CheckAll({"C04", "C09"}, <<"valid-invocation-failed", e.id, o.status>>, o.status = 0)
          /\ CheckAll({"C08", "C19"}, <<"needed-target-not-executed-exactly-once", e.id>>,
                      \A t \in C \cap builds : Count(o.ran, t) + Count(o.skipped, t) = 1)
          /\ CheckAll({"C08", "C09"}, <<"target-outside-closure-executed", e.id, (ran \cup skipped) \ C>>, (ran \cup skipped) \subseteq C)
          /\ CheckAll({"C08", "C12", "C18"}, <<"state-or-output-outside-closure-touched", e.id>>,
                      /\ after \ C = before \ C
                      /\ outA \ C = outB \ C)
          /\ IF e.m.clean
             THEN CheckAll({"C12"} \cup (IF \E r \in R : G.kind[r] = "a" THEN {"C20"} ELSE {}), <<"clean-then-skipped", e.id, skipped>>, skipped = {})
             ELSE /\ CheckAll({"C03", "C18"}, <<"unchanged-target-executed-again", e.id, (C \cap builds \cap fresh \cap SeqToSet(e.m.withInput)) \cap ran>>,
                              \A t \in C \cap builds \cap fresh \cap SeqToSet(e.m.withInput) : t \in skipped)
                  /\ CheckAll({"C02", "C18"}, <<"changed-or-never-built-target-skipped", e.id, skipped \ fresh>>, skipped \subseteq fresh)
          /\ CheckAll({"C03"}, <<"state-not-recorded", e.id>>, (C \cap builds \cap SeqToSet(e.m.withInput)) \subseteq after)
          /\ upToDate' = IF o.status = 0 THEN (fresh \ (IF e.m.clean THEN {} ELSE {})) \cup (C \cap builds \cap SeqToSet(e.m.withInput)) ELSE fresh \ C

Init == l = 1 /\ TLCSet(1, 0) /\ upToDate = {}
Next == /\ l <= Len(Rec) /\ l' = l + 1
        /\ IF Rec[l].e = "proj" THEN upToDate' = {} ELSE Inv(Rec[l])
Spec == Init /\ [][Next]_vars
Accepted == /\ IF TLCGet("stats").diameter = Len(Rec) + 1 THEN TRUE
               ELSE PrintT(<<"TRACE-NOT-CONSUMED", TLCGet("stats").diameter, Len(Rec)>>) /\ FALSE
            /\ PrintT(<<"TRACE-LINES", Len(Rec)>>)
            /\ TLCGet(1) = 0
=============================================================================
