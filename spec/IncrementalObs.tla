---------------------------- MODULE IncrementalObs ----------------------------
(***************************************************************************)
(* Observable property specification for the incremental runner (area B).  *)
(* A trace (IOEnv.TRACE) is a sequence of histories; each history names    *)
(* the universe of paths, which of them each target's input / output       *)
(* resources denote (computed by the driver with the rule of               *)
(* Resources.tla, independently of zinoma), then lists file operations,    *)
(* state-file corruptions and invocations of the REAL incremental::run     *)
(* with the decision it took.  The monitor carries the abstract state of   *)
(* Incremental.tla along the trace and compares every decision with the    *)
(* one the specification prescribes.                                       *)
(***************************************************************************)
EXTENDS Integers, Sequences, FiniteSets, TLC, Json, IOUtils

Rec == ndJsonDeserialize(IOEnv.TRACE)

VARIABLES l, h, fs, rec, cause

vars == <<l, h, fs, rec, cause>>
mon == <<h, fs, rec, cause>>

Absent == [m |-> -1, c |-> -1]
None == [k |-> "none"]

SeqSet(s) == {s[i] : i \in 1..Len(s)}
Targets == DOMAIN h.targets
InSet(t) == SeqSet(h.targets[t].inp)
OutSet(t) == SeqSet(h.targets[t].out)

Snap(S) == [p \in {q \in S : fs[q] # Absent} |-> fs[p]]

SnapMatches(saved, cur) ==
  /\ DOMAIN saved = DOMAIN cur
  /\ \A p \in DOMAIN cur : saved[p].m = cur[p].m \/ saved[p].c = cur[p].c

Matches(r, t) == /\ r.k = "full"
                 /\ SnapMatches(r.i, Snap(InSet(t)))
                 /\ SnapMatches(r.o, Snap(OutSet(t)))

Viol(prop, sig) ==
  /\ PrintT("MONITOR-VIOLATION " \o prop \o " @" \o ToString(l) \o " " \o ToString(sig))
  /\ TLCSet(1, TLCGet(1) + 1)
CheckAll(props, sig, ok) == IF ok THEN TRUE ELSE \A p \in props : Viol(p, sig)

Focus == IF "focus" \in DOMAIN h THEN SeqSet(h.focus) ELSE {}

ApplyWrites(f, ws) ==
  [p \in DOMAIN f |-> IF \E i \in 1..Len(ws) : ws[i].p = p
                      THEN LET i == CHOOSE j \in 1..Len(ws) : ws[j].p = p /\ \A k \in (j + 1)..Len(ws) : ws[k].p # p
                           IN [m |-> ws[i].mt, c |-> ws[i].c]
                      ELSE f[p]]
ApplyDeletes(f, ds) == [p \in DOMAIN f |-> IF p \in SeqSet(ds) THEN Absent ELSE f[p]]

StartHist(e) ==
  /\ h' = e.model
  /\ fs' = [p \in SeqSet(e.model.paths) |-> Absent]
  /\ rec' = [t \in DOMAIN e.model.targets |-> None]
  /\ cause' = [t \in DOMAIN e.model.targets |-> "never-built"]

Init == l = 1 /\ TLCSet(1, 0) /\ Rec[1].e = "hist"
        /\ h = Rec[1].model
        /\ fs = [p \in SeqSet(Rec[1].model.paths) |-> Absent]
        /\ rec = [t \in DOMAIN Rec[1].model.targets |-> None]
        /\ cause = [t \in DOMAIN Rec[1].model.targets |-> "never-built"]

\* which listed properties a wrong skip breaches
WrongSkipProps(t) ==
  {"C02", "C06"} \cup (IF ~h.targets[t].hasInput THEN {"C03"} ELSE {})       \* C03: "a target that declares no input is always executed"
             \cup (IF (rec[t].k # "full" /\ cause[t] \in {"fail", "cancel", "crash"}) \/ cause[t] = "corrupt" THEN {"C05"} ELSE {}) \cup Focus

Invoke(e) ==
  LET t == e.m.t
      \* a target without input is always executed, whatever lies in its state file (C03, repair of F11)
      expected == IF h.targets[t].hasInput /\ Matches(rec[t], t) THEN "skip" ELSE "run"
      sc == e.m.script
      crash == e.m.crash
      fs1 == IF e.decision = "run" /\ crash \notin {"incr_checked", "incr_deleted", "incr_captured"}
             THEN ApplyDeletes(ApplyWrites(fs, sc.writes), sc.deletes) ELSE fs
      capI == Snap(InSet(t))
      full == [k |-> "full", i |-> capI,
               o |-> [p \in {q \in OutSet(t) : fs1[q] # Absent} |-> fs1[p]]]
  IN
  /\ CheckAll({"C05", "C14"}, <<"runner-panicked-or-hung", t, e.result>>, e.result \notin {"panic", "hang"})
  /\ CheckAll(WrongSkipProps(t), <<"skipped-although-" \o (IF rec[t].k = "full" THEN "declared-resources-changed" ELSE "no-valid-record(" \o cause[t] \o ")"), t>>,
              ~(e.decision = "skip" /\ expected = "run"))
  /\ CheckAll({"C03"} \cup Focus, <<"executed-although-nothing-changed", t>>,
              ~(e.decision = "run" /\ expected = "skip"))
  /\ CheckAll({"C05"}, <<"corrupt-state-file-is-an-error", t, e.result>>,
              (cause[t] = "corrupt" /\ sc.outcome = "ok" /\ crash = "none") => e.result \in {"completed", "skipped"})
  /\ fs' = fs1
  /\ IF e.decision # "run"
     THEN UNCHANGED <<rec, cause>>
     ELSE IF crash = "incr_checked"
          THEN /\ rec' = [rec EXCEPT ![t] = IF @.k = "garbage" THEN None ELSE @]
               /\ cause' = [cause EXCEPT ![t] = IF rec[t].k = "garbage" THEN "corrupt" ELSE @]
          ELSE IF crash \in {"incr_deleted", "incr_captured", "script", "incr_script_done", "incr_computed"}
               THEN rec' = [rec EXCEPT ![t] = None] /\ cause' = [cause EXCEPT ![t] = "crash"]
               ELSE IF sc.outcome = "ok" /\ h.targets[t].hasInput
                    THEN rec' = [rec EXCEPT ![t] = full] /\ cause' = [cause EXCEPT ![t] = "built"]
                    ELSE /\ rec' = [rec EXCEPT ![t] = None]
                         /\ cause' = [cause EXCEPT ![t] = IF sc.outcome = "ok" THEN "no-input" ELSE sc.outcome]
  /\ UNCHANGED h

Step(e) ==
  CASE e.e = "hist" -> StartHist(e)
    [] e.e \in {"write", "touch"} -> /\ fs' = [fs EXCEPT ![e.m.p] = [m |-> e.m.mt, c |-> e.m.c]] /\ UNCHANGED <<h, rec, cause>>
    [] e.e = "delete" -> /\ fs' = [fs EXCEPT ![e.m.p] = Absent] /\ UNCHANGED <<h, rec, cause>>
    [] e.e = "rename" -> /\ fs' = IF fs[e.m.from] = Absent THEN fs ELSE [fs EXCEPT ![e.m.to] = fs[e.m.from], ![e.m.from] = Absent]
                         /\ UNCHANGED <<h, rec, cause>>
    [] e.e = "corrupt" ->
         \* a copy of another target's complete state file decodes: zinoma can only compare it with the current state
         \* (a foreign record that describes exactly t's declared resources as they are now is indistinguishable from t's own)
         /\ rec' = [rec EXCEPT ![e.m.t] = IF e.m.flavour = "foreign" /\ rec[e.m.other].k = "full" THEN rec[e.m.other]
                                           ELSE [k |-> "garbage"]]
         /\ cause' = [cause EXCEPT ![e.m.t] = "corrupt"] /\ UNCHANGED <<h, fs>>
    [] e.e = "clean" -> /\ rec' = [rec EXCEPT ![e.m.t] = None] /\ cause' = [cause EXCEPT ![e.m.t] = "cleaned"]
                        /\ fs' = [p \in DOMAIN fs |-> IF p \in OutSet(e.m.t) THEN Absent ELSE fs[p]] /\ UNCHANGED h
    [] e.e = "invoke" -> Invoke(e)
    [] OTHER -> UNCHANGED mon

Next == /\ l <= Len(Rec) /\ l' = l + 1
        /\ IF l = 1 THEN UNCHANGED mon ELSE Step(Rec[l])

Spec == Init /\ [][Next]_vars

Accepted == /\ IF TLCGet("stats").diameter = Len(Rec) + 1 THEN TRUE
               ELSE PrintT(<<"TRACE-NOT-CONSUMED", TLCGet("stats").diameter, Len(Rec)>>) /\ FALSE
            /\ PrintT(<<"TRACE-LINES", Len(Rec)>>)
            /\ TLCGet(1) = 0
=============================================================================
