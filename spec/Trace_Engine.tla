---------------------------- MODULE Trace_Engine ----------------------------
(***************************************************************************)
(* Conformance of recorded executions of the REAL engine to Engine.tla.    *)
(* Every line of the trace (IOEnv.TRACE, produced by tools/project.py      *)
(* project_d from the hook log of a schedule-controlled harness run) names *)
(* exactly one action of Engine.tla together with the arguments that were  *)
(* logged and, where the code exposes it, the actor's state after the      *)
(* step.  The line is accepted only if that action is enabled in the       *)
(* current specification state with those arguments and produces the       *)
(* logged post-state.  Several runs are concatenated; a "cfg" line resets  *)
(* the state to Engine's initial state for that configuration.  Engine's   *)
(* invariants are evaluated in every state along the way.                  *)
(***************************************************************************)
EXTENDS Engine, Json, IOUtils

Rec == ndJsonDeserialize(IOEnv.TRACE)
VARIABLE l
tvars == <<vars, l>>

SeqSet(s) == {s[i] : i \in 1..Len(s)}
Pad(seq, dflt) == [t \in T |-> IF t <= Len(seq) THEN seq[t] ELSE dflt]

\* the initial state of Engine.tla for the configuration c of a run (targets beyond c.n are inert padding)
CfgKind(c) == Pad(c.kind, "a")
CfgDeps(c) == [t \in T |-> IF t <= c.n THEN SeqSet(c.deps[t]) ELSE {}]
CfgInh(c) == [t \in T |-> IF t <= c.n THEN SeqSet(c.inh[t]) ELSE {}]
CfgRec(c) == [t \in T |-> IF t \in SeqSet(c.rec)
                          THEN <<0>> \o [i \in 1..Cardinality(CfgInh(c)[t]) |-> 0] ELSE NoRec]

SetCfg(c) ==
  /\ kind' = CfgKind(c) /\ deps' = CfgDeps(c) /\ roots' = SeqSet(c.roots) /\ slow' = SeqSet(c.slow) /\ inh' = CfgInh(c)
  /\ st' = [t \in T |-> [toExec |-> TRUE, executed |-> FALSE, unavB |-> CfgDeps(c)[t], unavS |-> CfgDeps(c)[t],
                         reqB |-> {}, reqS |-> {}, actB |-> {}, actS |-> {},
                         bpc |-> "none", termSeen |-> FALSE, cancelSent |-> FALSE, up |-> FALSE]]
  /\ inbox' = [t \in T |-> <<>>] /\ pend' = [t \in T |-> <<>>] /\ out' = [t \in T |-> <<>>]
  /\ invalSlot' = [t \in T |-> FALSE] /\ termSlot' = [t \in T |-> FALSE]
  /\ launched' = {} /\ alive' = [t \in T |-> TRUE]
  /\ hold' = NoMsg /\ rootPhase' = "requesting" /\ reqIdx' = 0
  /\ unavB' = SeqSet(c.roots) /\ unavS' = SeqSet(c.roots) /\ svcRoots' = {} /\ termRecv' = FALSE
  /\ exitStatus' = -1 /\ errTarget' = 0
  /\ signalled' = FALSE /\ sigUsed' = FALSE
  /\ inVer' = [t \in T |-> 0] /\ gen' = [t \in T |-> 0]
  /\ rec' = CfgRec(c) /\ cap' = [t \in T |-> NoRec] /\ saw' = [t \in T |-> NoRec] /\ outOf' = CfgRec(c)
  /\ notif' = [t \in T |-> FALSE] /\ nChanges' = 0
  /\ nStart' = [t \in T |-> 0] /\ nSkip' = [t \in T |-> 0]
  /\ ready' = [t \in T |-> FALSE] /\ failed' = [t \in T |-> FALSE]
  /\ word' = ZeroWord /\ proc' = [t \in T |-> 0] /\ viol' = {} /\ stale' = [t \in T |-> {}]

TraceInit ==
  /\ l = 1
  /\ kind = [t \in T |-> "a"] /\ deps = [t \in T |-> {}] /\ roots = {} /\ slow = {} /\ inh = [t \in T |-> {}]
  /\ st = [t \in T |-> InitLocal(t)]
  /\ inbox = [t \in T |-> <<>>] /\ pend = [t \in T |-> <<>>] /\ out = [t \in T |-> <<>>]
  /\ invalSlot = [t \in T |-> FALSE] /\ termSlot = [t \in T |-> FALSE]
  /\ launched = {} /\ alive = [t \in T |-> TRUE]
  /\ hold = NoMsg /\ rootPhase = "exited" /\ reqIdx = 0
  /\ unavB = {} /\ unavS = {} /\ svcRoots = {} /\ termRecv = FALSE /\ exitStatus = 0 /\ errTarget = 0
  /\ signalled = FALSE /\ sigUsed = FALSE
  /\ inVer = [t \in T |-> 0] /\ gen = [t \in T |-> 0]
  /\ rec = [t \in T |-> NoRec] /\ cap = [t \in T |-> NoRec] /\ saw = [t \in T |-> NoRec] /\ outOf = [t \in T |-> NoRec]
  /\ notif = [t \in T |-> FALSE] /\ nChanges = 0
  /\ nStart = [t \in T |-> 0] /\ nSkip = [t \in T |-> 0]
  /\ ready = [t \in T |-> FALSE] /\ failed = [t \in T |-> FALSE]
  /\ word = ZeroWord /\ proc = [t \in T |-> 0] /\ viol = {} /\ stale = [t \in T |-> {}]

\* the logged actor snapshot (the helper's five fields + actor specifics) against the specification's local state
PostOK(t, p) ==
  \/ ~p.has
  \/ /\ st'[t].toExec = p.to_execute /\ st'[t].executed = p.executed
     /\ st'[t].unavB = SeqSet(p.unavail_b) /\ st'[t].unavS = SeqSet(p.unavail_s)
     /\ st'[t].reqB = SeqSet(p.req_b) /\ st'[t].reqS = SeqSet(p.req_s)
     /\ (kind[t] = "b" => (st'[t].bpc # "none") = p.inflight)
     /\ (kind[t] = "s" => st'[t].up = p.running)
     /\ (kind[t] = "a" => st'[t].actB = SeqSet(p.actual_b) /\ st'[t].actS = SeqSet(p.actual_s))

FirstFor(s, d) == CHOOSE i \in 1..Len(out[s]) : out[s][i].dest = d /\ \A j \in 1..(i - 1) : out[s][j].dest # d

Event(e) ==
  CASE e.a = "cfg" -> SetCfg(e.cfg)
    [] e.a = "rootreq" -> RootRequest
    [] e.a = "take" ->
         /\ \E i \in 1..Len(out[e.s]) : out[e.s][i].dest = e.dest
         /\ LET i == FirstFor(e.s, e.dest)  m == out[e.s][i] IN
            /\ m.ty = e.ty /\ (e.ty # "err" => m.k = e.k /\ m.act = e.act)
            /\ RelayTakeAt(e.s, i)
    [] e.a = "recv" ->
         /\ inbox[e.t] # <<>>
         /\ Head(inbox[e.t]).ty = e.ty /\ Head(inbox[e.t]).k = e.k /\ Head(inbox[e.t]).from = e.from /\ Head(inbox[e.t]).act = e.act
         /\ Recv(e.t) /\ PostOK(e.t, e.post)
    [] e.a = "inval" -> RecvInval(e.t) /\ PostOK(e.t, e.post)
    [] e.a = "term" -> RecvTerm(e.t) /\ PostOK(e.t, e.post)
    [] e.a = "check" -> BuildCheck(e.t) /\ (st'[e.t].bpc = "done_skip") = e.skip
    [] e.a = "spawn" -> BuildSpawn(e.t) /\ st'[e.t].bpc = "script"
    [] e.a = "sread" -> ScriptRead(e.t)
    [] e.a = "sfinish" -> ScriptFinish(e.t) /\ (st'[e.t].bpc = "record") = e.ok
    [] e.a = "cancelled" -> BuildCancelled(e.t)
    [] e.a = "record" -> BuildRecord(e.t)
    [] e.a = "result" -> BuildResult(e.t) /\ PostOK(e.t, e.post)
    [] e.a = "edit" -> FileChange(e.t)
    [] e.a = "notify" -> Notify(e.t)
    [] e.a = "signal" -> Signal
    [] e.a = "seesig" -> RootSeesSignal
    [] e.a = "loopexit" -> RootLoopExit /\ (rootPhase' = "waitsig") = e.waits
    [] e.a = "waitsigdone" -> RootWaitSignal
    [] e.a = "terminate" -> Terminate
    [] e.a = "exit" -> RootExit
    [] OTHER -> FALSE

TraceNext == /\ l <= Len(Rec) /\ l' = l + 1 /\ Event(Rec[l])
TraceSpec == TraceInit /\ [][TraceNext]_tvars

\* every line consumed; otherwise print where the specification could not follow (drift)
TraceAccepted ==
  IF TLCGet("stats").diameter = Len(Rec) + 1 THEN PrintT(<<"TRACE-LINES", Len(Rec)>>)
  ELSE PrintT("DRIFT @" \o ToString(TLCGet("stats").diameter) \o " " \o ToString(Rec[TLCGet("stats").diameter])) /\ FALSE
=============================================================================
