SPECIFICATION Spec
CONSTANTS
  Paths = {p1, p2, p3}
  NT = 1
  MaxM = 1
  MaxC = 1
  MaxOps = 2
  MaxInv = 2
  RecordBefore = TRUE
  GuardNoInput = TRUE
  Foreigns = TRUE
INVARIANTS TypeOK FullOnlyFromSuccess SkipMeansUpToDate SkipComplete NoInputNoRecord
PROPERTIES RecIndependent
CHECK_DEADLOCK FALSE
