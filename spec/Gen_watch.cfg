SPECIFICATION GSpec
CONSTANTS
  N = 3
  Watch = TRUE
  MaxChanges = 3
  Failures = TRUE
  Slow = FALSE
  Signals = TRUE
  Skips = TRUE
  Inherit = TRUE
  CapChan = 0
  CapInbox = 0
  AckLate = TRUE
  RecordBefore = TRUE
  StrictStart = FALSE
  Unrequests = FALSE
CHECK_DEADLOCK FALSE
