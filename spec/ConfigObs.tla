------------------------------ MODULE ConfigObs ------------------------------
(***************************************************************************)
(* Observable property specification for configuration handling (area C). *)
(* Each line of the trace (IOEnv.TRACE) is one generated case: its         *)
(* abstract description (graph / arrangement / document, in the            *)
(* vocabulary of ConfigRules) and what zinoma's own loader and resolver    *)
(* answered, normalised by the driver.  The verdicts and graphs are        *)
(* compared with ConfigRules.                                              *)
(***************************************************************************)
EXTENDS ConfigRules, Json, IOUtils

Rec == ndJsonDeserialize(IOEnv.TRACE)
VARIABLE l
vars == <<l>>

Viol(prop, sig) ==
  /\ PrintT("MONITOR-VIOLATION " \o prop \o " @" \o ToString(l) \o " " \o ToString(sig))
  /\ TLCSet(1, TLCGet(1) + 1)
CheckAll(props, sig, ok) == IF ok THEN TRUE ELSE \A p \in props : Viol(p, sig)

\* graph record from its JSON form (targets: sequence of records)
Graph(m) ==
  LET ts == SeqToSet(m.targets) IN
  [pkeys |-> SeqToSet(m.pkeys), root |-> m.root, ids |-> {t.id : t \in ts},
   proj |-> [i \in {t.id : t \in ts} |-> (CHOOSE t \in ts : t.id = i).proj],
   name |-> [i \in {t.id : t \in ts} |-> (CHOOSE t \in ts : t.id = i).name],
   kind |-> [i \in {t.id : t \in ts} |-> (CHOOSE t \in ts : t.id = i).kind],
   deps |-> [i \in {t.id : t \in ts} |-> (CHOOSE t \in ts : t.id = i).deps],
   outs |-> [i \in {t.id : t \in ts} |-> (CHOOSE t \in ts : t.id = i).outs],
   ownIn |-> [i \in {t.id : t \in ts} |-> (CHOOSE t \in ts : t.id = i).ownIn],
   ownOut |-> [i \in {t.id : t \in ts} |-> (CHOOSE t \in ts : t.id = i).ownOut],
   bad |-> [i \in {t.id : t \in ts} |-> (CHOOSE t \in ts : t.id = i).bad]]

\* an input entry that is neither a resource nor a well-formed "<target>.output" must be refused as well
BrokenX(G, R) == Broken(G, R) \/ \E t \in Reach(G, R) : G.bad[t] # <<>>

Arrangement(m) ==
  LET ds == SeqToSet(m.dirs) IN
  [dirs |-> {d.key : d \in ds}, root |-> m.root,
   exists |-> [k \in {d.key : d \in ds} |-> (CHOOSE d \in ds : d.key = k).exists],
   yamlok |-> [k \in {d.key : d \in ds} |-> (CHOOSE d \in ds : d.key = k).yamlok],
   pname |-> [k \in {d.key : d \in ds} |-> (CHOOSE d \in ds : d.key = k).pname],
   imports |-> [k \in {d.key : d \in ds} |-> (CHOOSE d \in ds : d.key = k).imports]]

ObsTarget(o, i) == CHOOSE t \in SeqToSet(o.targets) : t.id = i

ResolveCase(e) ==
  LET G == Graph(e.m)
      o == e.obs
      req == SeqToSet(e.m.requested)
      badName == \E r \in req : r \notin CliNames(G)
      R == {Denotes(G, r) : r \in req \cap CliNames(G)}
      expectReject == badName \/ BrokenX(G, R)
  IN
  /\ CheckAll({"C14"}, <<"panic", e.id>>, o.verdict # "panic")
  /\ CheckAll({"C14"}, <<"verdict-or-meaning-differs-between-invocations", e.id>>, o.same)
  /\ CheckAll({"C19"}, <<"accepted-command-line-names", e.id>>, o.names = <<>> \/ SeqToSet(o.names) = CliNames(G))
  /\ CheckAll({"C09"} \cup (IF badName THEN {"C19"} ELSE {}), <<"broken-graph-accepted", e.id>>, expectReject => o.verdict # "accept")
  /\ CheckAll({"C09"}, <<"valid-graph-refused", e.id>>, ~expectReject => o.verdict = "accept")
  /\ IF o.verdict = "accept" /\ ~expectReject
     THEN /\ CheckAll({"C09", "C08"}, <<"resolved-set-is-not-the-closure", e.id>>, {t.id : t \in SeqToSet(o.targets)} = Reach(G, R))
          /\ CheckAll({"C19"}, <<"both-spellings-must-denote-one-target", e.id>>, SeqToSet(o.roots) = R)
          /\ \A i \in Reach(G, R) \cap {t.id : t \in SeqToSet(o.targets)} :
               /\ CheckAll({"C09", "C19", "C01"}, <<"reference-resolved-to-the-wrong-target", e.id, i>>,
                           SeqToSet(ObsTarget(o, i).deps) = ExpectedDeps(G, i))
               /\ CheckAll({"C13"}, <<"inherited-input-wrong", e.id, i>>, SeqToSet(ObsTarget(o, i).inp) = ExpectedIn(G, i))
               /\ CheckAll({"C13"}, <<"own-output-wrong", e.id, i>>, SeqToSet(ObsTarget(o, i).out) = SeqToSet(G.ownOut[i]))
               /\ CheckAll({"C09"}, <<"kind-wrong", e.id, i>>, ObsTarget(o, i).kind = G.kind[i])
     ELSE TRUE

\* two loaded projects with one name: "name::target" would no longer denote one target (C19 as well as C14)
DupNames(A) == \E d, e \in Loaded(A) \cap A.dirs : d # e /\ A.pname[d] # "" /\ A.pname[d] = A.pname[e]

LoadCase(e) ==
  LET A == Arrangement(e.m) IN
  /\ CheckAll({"C14"}, <<"panic", e.id>>, e.obs.verdict # "panic")
  /\ CheckAll({"C14"}, <<"verdict-differs-between-invocations", e.id>>, e.obs.same)
  /\ CheckAll({"C14"} \cup (IF DupNames(A) THEN {"C19"} ELSE {}), <<"invalid-arrangement-accepted", e.id>>,
              ~ArrangementOK(A) => e.obs.verdict # "accept")
  /\ CheckAll({"C14"}, <<"valid-arrangement-refused", e.id>>, ArrangementOK(A) => e.obs.verdict = "accept")

DocCase(e) ==
  /\ CheckAll({"C14"}, <<"panic", e.id>>, e.obs.verdict # "panic")
  /\ CheckAll({"C14"}, <<"invalid-document-accepted", e.id>>, ~DocOK(e.m) => e.obs.verdict # "accept")
  /\ CheckAll({"C14"}, <<"valid-document-refused", e.id>>, DocOK(e.m) => e.obs.verdict = "accept")

\* raw byte strings: the only requirement is a verdict, the same every time
BytesCase(e) ==
  /\ CheckAll({"C14"}, <<"panic-or-hang-on-arbitrary-bytes", e.id>>, e.obs.verdict \in {"accept", "reject"})
  /\ CheckAll({"C14"}, <<"verdict-differs-between-invocations", e.id>>, e.obs.same)

Step(e) == CASE e.kindcase = "resolve" -> ResolveCase(e)
             [] e.kindcase = "load" -> LoadCase(e)
             [] e.kindcase = "doc" -> DocCase(e)
             [] e.kindcase = "bytes" -> BytesCase(e)
             [] OTHER -> TRUE

Init == l = 1 /\ TLCSet(1, 0)
Next == l <= Len(Rec) /\ Step(Rec[l]) /\ l' = l + 1
Spec == Init /\ [][Next]_vars

Accepted == /\ IF TLCGet("stats").diameter = Len(Rec) + 1 THEN TRUE
               ELSE PrintT(<<"TRACE-NOT-CONSUMED", TLCGet("stats").diameter, Len(Rec)>>) /\ FALSE
            /\ PrintT(<<"TRACE-LINES", Len(Rec)>>)
            /\ TLCGet(1) = 0
=============================================================================
