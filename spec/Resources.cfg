SPECIFICATION Spec
INVARIANTS Monotone NoWorkDir CleanWithin CleanIsDenoted NeverThroughLink Idem MissingContributesNothing SelfOK
CHECK_DEADLOCK FALSE
