SPECIFICATION Spec
CONSTANTS UniqueNames = TRUE
INVARIANTS VerdictRight Bounded
PROPERTIES Terminates
CHECK_DEADLOCK FALSE
