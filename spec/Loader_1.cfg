SPECIFICATION Spec
CONSTANTS UniqueNames = TRUE
  Dirs = {"d0", "d1"}
INVARIANTS VerdictRight Bounded
PROPERTIES Terminates
CHECK_DEADLOCK FALSE
