---------------------------------- MODULE Cli ----------------------------------
(***************************************************************************)
(* src/main.rs as a step machine: parse -> load -> list names -> parse the *)
(* requested names -> resolve -> [clean] -> run -> terminate, over every    *)
(* small graph of ConfigRules (two projects, broken references included),   *)
(* every command line (targets, --clean, unknown names) and every disk      *)
(* state (which targets have recorded state / outputs / are up to date).    *)
(* The invariants are the rules CliObs.tla evaluates on the real binary.    *)
(***************************************************************************)
EXTENDS ConfigRules

CONSTANT MaxTargets

VARIABLES G, valid,           \* the project files: graph and whether every document is valid
          req, clean,         \* the command line: requested names (set of CLI strings), --clean
          state, outs, fresh, \* disk: targets with a state file / with outputs / up to date
          state0, outs0,      \* the disk when the invocation began
          pc, status, C, ran, skipped

vars == <<G, valid, req, clean, state, outs, fresh, state0, outs0, pc, status, C, ran, skipped>>

U == {Id("_", "a"), Id("_", "b"), Id("S", "a")}
Pool == {[q |-> "", n |-> "a"], [q |-> "S", n |-> "a"], [q |-> "", n |-> "c"]}
SeqsUpTo(S, k) == UNION {[1..n -> S] : n \in 0..k}

Init ==
  /\ \E ids \in {x \in (SUBSET U) \ {{}} : Cardinality(x) <= MaxTargets} :
       G \in [pkeys : {{"_", "S"}}, root : {"_"}, ids : {ids},
              proj : {[t \in ids |-> IF t = Id("S", "a") THEN "S" ELSE "_"]},
              name : {[t \in ids |-> IF t = Id("_", "b") THEN "b" ELSE "a"]},
              kind : [ids -> {"b", "a"}],
              deps : [ids -> SeqsUpTo(Pool, 1)],
              outs : {[t \in ids |-> <<>>]}]
  /\ valid \in BOOLEAN
  /\ req \in {r \in SUBSET (CliNames(G) \cup {"nope"}) : Cardinality(r) <= 2} /\ clean \in BOOLEAN /\ (req = {} => clean)
  /\ state \in SUBSET G.ids /\ outs = state /\ fresh \in SUBSET state
  /\ \A t \in state \cup outs : G.kind[t] = "b"
  /\ state0 = state /\ outs0 = outs
  /\ pc = "load" /\ status = -1 /\ C = {} /\ ran = {} /\ skipped = {}

Builds == {t \in G.ids : G.kind[t] = "b"}
R == {Denotes(G, r) : r \in req \cap CliNames(G)}
Rall == IF req = {} THEN G.ids ELSE R

Reject == pc' = "done" /\ status' = 1 /\ UNCHANGED <<G, valid, req, clean, state, outs, fresh, state0, outs0, C, ran, skipped>>

\* yaml::Config::load - any invalid document or arrangement stops here (main.rs:44)
Load == /\ pc = "load"
        /\ IF ~valid THEN Reject
           ELSE pc' = "names" /\ UNCHANGED <<G, valid, req, clean, state, outs, fresh, state0, outs0, status, C, ran, skipped>>
\* clap possible_values (main.rs:49-59)
Names == /\ pc = "names"
         /\ IF \E r \in req : r \notin CliNames(G) THEN Reject
            ELSE pc' = "resolve" /\ UNCHANGED <<G, valid, req, clean, state, outs, fresh, state0, outs0, status, C, ran, skipped>>
\* try_into_domain_targets (main.rs:69): before anything is cleaned or run
ResolveStep == /\ pc = "resolve"
           /\ IF Broken(G, Rall) THEN Reject
              ELSE /\ C' = Reach(G, Rall) /\ pc' = IF clean THEN "clean" ELSE "run"
                   /\ UNCHANGED <<G, valid, req, clean, state, outs, fresh, state0, outs0, status, ran, skipped>>
\* main.rs:72-87
Clean == /\ pc = "clean"
         /\ state' = IF req = {} THEN {} ELSE state \ C
         /\ outs' = outs \ C            \* with no target given C is every target
         /\ fresh' = fresh \ C
         /\ pc' = IF req = {} THEN "done" ELSE "run"
         /\ status' = IF req = {} THEN 0 ELSE status
         /\ UNCHANGED <<G, valid, req, clean, state0, outs0, C, ran, skipped>>
\* the engine, abstractly (Engine.tla says how): every build of the closure is skipped iff up to date, else run
Run == /\ pc = "run"
       /\ skipped' = C \cap Builds \cap fresh
       /\ ran' = (C \cap Builds) \ fresh
       /\ state' = state \cup (C \cap Builds) /\ outs' = outs \cup (C \cap Builds) /\ fresh' = fresh \cup (C \cap Builds)
       /\ pc' = "done" /\ status' = 0
       /\ UNCHANGED <<G, valid, req, clean, state0, outs0, C>>

Next == Load \/ Names \/ ResolveStep \/ Clean \/ Run \/ (pc = "done" /\ UNCHANGED vars)
Spec == Init /\ [][Next]_vars

Refused == ~valid \/ (\E r \in req : r \notin CliNames(G)) \/ Broken(G, Rall)
\* C09 / C14: a refused invocation ran nothing and deleted nothing
RefusedTouchesNothing == (pc = "done" /\ Refused) => status = 1 /\ ran = {} /\ state = state0 /\ outs = outs0
\* C08 / C12 / C18: nothing outside the closure is ever touched
OutsideUntouched == (req # {} /\ ~Refused) => (state \ Reach(G, Rall) = state0 \ Reach(G, Rall) /\ outs \ Reach(G, Rall) = outs0 \ Reach(G, Rall))
\* C12: --clean T never skips; --clean alone leaves nothing and runs nothing
CleanNeverSkips == (pc = "done" /\ clean /\ req # {} /\ ~Refused) => skipped = {} /\ ran = Reach(G, Rall) \cap Builds
CleanAlone == (pc = "done" /\ req = {} /\ ~Refused) => state = {} /\ outs = {} /\ ran = {}
\* C08 / C19: every build of the closure exactly once
ExactlyOnce == (pc = "done" /\ req # {} /\ ~Refused) => (ran \cup skipped = Reach(G, Rall) \cap Builds /\ ran \cap skipped = {})
=============================================================================
