------------------------------ MODULE Resources ------------------------------
(* Internal-consistency lemmas of ResourceRules over every tree on a small universe of paths and every declaration. *)
EXTENDS ResourceRules

U == {<<"d">>, <<"d", "f.o">>, <<"d", "g.txt">>, <<"d", ".zinoma">>, <<"d", ".zinoma", "h.o">>, <<"d", "s">>, <<"d", "s", "k.o">>,
      <<"l">>, <<"x.o">>}
Types(p) == IF p \in {<<"d">>, <<"d", ".zinoma">>, <<"d", "s">>} THEN {"dir"}
            ELSE IF p = <<"l">> THEN {"link"} ELSE IF p = <<"d", "s", "k.o">> THEN {"file", "link"} ELSE {"file"}
ExtChoices == {<<>>, <<"o">>, <<".o">>, <<"">>, <<"txt", "">>, <<"o", "txt">>}
PathChoices == {<<<<"d">>>>, <<<<"d", "s">>>>, <<<<"l">>>>, <<<<"d">>, <<"x.o">>>>, <<<<"nope">>>>, <<<<"d", ".zinoma">>>>}

VARIABLES tree, paths, exts, bigger
vars == <<tree, paths, exts, bigger>>

WellFormed(t) == \A n \in t : Len(n.p) > 1 => \E m \in t : m.p = SubSeq(n.p, 1, Len(n.p) - 1) /\ m.ty = "dir"

Init == /\ tree \in {t \in SUBSET UNION {{[p |-> p, ty |-> ty, to |-> IF ty = "link" THEN (IF p = <<"l">> THEN "dir" ELSE "file") ELSE ""] : ty \in Types(p)} : p \in U} :
                        WellFormed(t) /\ \A a, b \in t : a.p = b.p => a = b}
        /\ paths \in PathChoices /\ exts \in ExtChoices
        /\ bigger \in PathChoices
Next == UNCHANGED vars
Spec == Init /\ [][Next]_vars

\* more listed paths never denote fewer files; cleaning never removes a node that is not at or below a declared path;
\* nothing inside .zinoma is ever denoted; the clean set of an extension-filtered resource is what it denotes
Monotone == Must(tree, paths, exts) \subseteq Must(tree, paths \o bigger, exts)
NoWorkDir == \A f \in Must(tree, paths, exts) : ~WorkDirAnywhere(f)
CleanWithin == \A f \in MustRemove(tree, paths, exts) \cup MayRemove(tree, paths, exts) : \E d \in SeqToSet(paths) : IsPrefix(d, f)
CleanIsDenoted == NormExts(exts) # {} => /\ Must(tree, paths, exts) \subseteq MustRemove(tree, paths, exts) \cup MayRemove(tree, paths, exts)
                                         /\ MustRemove(tree, paths, exts) \subseteq Must(tree, paths, exts)
NeverThroughLink == \A f \in MustRemove(tree, paths, exts) \cup MayRemove(tree, paths, exts) : ~LinkAbove(tree, f)
Idem == NormIdempotent(exts)
MissingContributesNothing == Must(tree, <<<<"nope">>>>, exts) = {}
SelfOK == ListingOK(tree, paths, exts, Must(tree, paths, exts)) /\ CleanOK(tree, paths, exts, MustRemove(tree, paths, exts))
=============================================================================
