---------------------------- MODULE ResourceRules ----------------------------
(***************************************************************************)
(* What a files resource denotes, what --clean may and must delete, which  *)
(* watcher events are relevant (area D), written from the statements of    *)
(* C12, C15, C16.  Paths are sequences of components; a tree is a set of   *)
(* nodes [p, ty] with ty in "file", "dir", "link".  Where the statements   *)
(* are silent the rule is three-valued (Must / May): an open question can  *)
(* never turn into an alarm.                                               *)
(***************************************************************************)
EXTENDS Integers, Sequences, FiniteSets, TLC

SeqToSet(s) == {s[i] : i \in 1..Len(s)}
IsPrefix(a, b) == Len(a) <= Len(b) /\ SubSeq(b, 1, Len(a)) = a
StrictPrefix(a, b) == Len(a) < Len(b) /\ SubSeq(b, 1, Len(a)) = a
Last(p) == p[Len(p)]
EndsWith(s, e) == Len(s) >= Len(e) /\ SubSeq(s, Len(s) - Len(e) + 1, Len(s)) = e
StartsWith(s, e) == Len(s) >= Len(e) /\ SubSeq(s, 1, Len(e)) = e

WorkDir == ".zinoma"

\* extensions as declared -> as applied: empty entries ignored, leading dot added, empty list = no filter
NormExt(e) == IF StartsWith(e, ".") THEN e ELSE "." \o e
NormExts(exts) == {NormExt(e) : e \in {x \in SeqToSet(exts) : x # ""}}
ExtOK(name, exts) == NormExts(exts) = {} \/ \E e \in NormExts(exts) : EndsWith(name, e)

Node(tree, p) == CHOOSE n \in tree : n.p = p
Has(tree, p) == \E n \in tree : n.p = p
LinkAtOrAbove(tree, f) == \E n \in tree : n.ty = "link" /\ IsPrefix(n.p, f)
LinkAbove(tree, f) == \E n \in tree : n.ty = "link" /\ StrictPrefix(n.p, f)

\* f is at or below the declared path d, with no .zinoma component from d's own name downwards
Covered(d, f) == IsPrefix(d, f)
WorkDirBelow(d, f) == \E i \in Len(d)..Len(f) : i >= 1 /\ f[i] = WorkDir
WorkDirAnywhere(f) == \E i \in 1..Len(f) : f[i] = WorkDir

(* C15 *)
\* files that a resource (paths, exts) MUST denote: regular files at or below a listed path, reached without
\* any symbolic link, not inside a .zinoma directory, with a matching name
\* (an entry that is a symbolic link to a regular file counts as that file - the tree records what a link resolves to in
\* `to` - but nothing is ever reached THROUGH a link)
IsFileEntry(m) == m.ty = "file" \/ (m.ty = "link" /\ m.to = "file")
Must(tree, paths, exts) ==
  {n.p : n \in {m \in tree : IsFileEntry(m) /\ ~LinkAbove(tree, m.p) /\ ~WorkDirAnywhere(m.p)
                              /\ ExtOK(Last(m.p), exts) /\ \E d \in SeqToSet(paths) : Covered(d, m.p)}}
\* a listed path outside Must is tolerated only where the statement is silent: it involves a symbolic link,
\* or a .zinoma component above the declared path; never a non-matching name, never outside the listed paths,
\* never inside a .zinoma directory at or below the listed path
MayList(tree, paths, exts, f) ==
  /\ \E d \in SeqToSet(paths) : Covered(d, f) /\ ~WorkDirBelow(d, f)
  /\ ExtOK(Last(f), exts)
  /\ (LinkAtOrAbove(tree, f) \/ WorkDirAnywhere(f))
ListingOK(tree, paths, exts, listed) ==
  /\ Must(tree, paths, exts) \subseteq listed
  /\ \A f \in listed \ Must(tree, paths, exts) : MayList(tree, paths, exts, f)

(* C12 *)
\* real nodes that cleaning one output resource must remove / may remove; everything else must survive
MustRemove(tree, paths, exts) ==
  IF NormExts(exts) # {} THEN {f \in Must(tree, paths, exts) : Node(tree, f).ty = "file"}
  ELSE {n.p : n \in {m \in tree : ~LinkAbove(tree, m.p) /\ \E d \in SeqToSet(paths) :
                                    /\ IsPrefix(d, m.p) /\ Has(tree, d) /\ Node(tree, d).ty # "link"}}
MayRemove(tree, paths, exts) ==
  \* a symbolic link that is itself a declared path or a matching entry below one may go (the link, not its target)
  {n.p : n \in {m \in tree : m.ty = "link" /\ ~LinkAbove(tree, m.p) /\ \E d \in SeqToSet(paths) : IsPrefix(d, m.p)
                              /\ (NormExts(exts) = {} \/ ExtOK(Last(m.p), exts))}}
\* where C15 is silent about a listed path inside .zinoma (declared from within it), so is C12 - but never through a link
MayRemoveWorkDir(tree, paths, exts) ==
  {n.p : n \in {m \in tree : m.ty = "file" /\ ~LinkAbove(tree, m.p) /\ WorkDirAnywhere(m.p) /\ ExtOK(Last(m.p), exts)
                              /\ \E d \in SeqToSet(paths) : Covered(d, m.p) /\ ~WorkDirBelow(d, m.p)}}
CleanOK(tree, paths, exts, removed) ==
  /\ MustRemove(tree, paths, exts) \subseteq removed
  /\ removed \subseteq MustRemove(tree, paths, exts) \cup MayRemove(tree, paths, exts) \cup MayRemoveWorkDir(tree, paths, exts)

(* C16 *)
TmpEditor(name) == EndsWith(name, "~") \/ (StartsWith(name, ".") /\ (EndsWith(name, ".swp") \/ EndsWith(name, ".swx")))
Relevant(f, exts) == ~TmpEditor(Last(f)) /\ ~WorkDirAnywhere(f) /\ ExtOK(Last(f), exts)

(* lemmas checked by TLC over a small universe (Resources.tla) *)
NormIdempotent(exts) == NormExts(exts) = {NormExt(e) : e \in NormExts(exts)}
=============================================================================
