SPECIFICATION Spec
CONSTANTS MaxRefs = 1
  MaxTargets = 2
INVARIANTS VerdictRight Bounded
CHECK_DEADLOCK FALSE
