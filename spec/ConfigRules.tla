----------------------------- MODULE ConfigRules -----------------------------
(***************************************************************************)
(* Declarative meaning of a zinoma configuration (area C), written from    *)
(* the property statements and the documented schema, not from the code:   *)
(* name resolution, the requested closure, which graphs must be refused,   *)
(* X.output inheritance, import arrangements, document structure.          *)
(* Everything is an operator over an explicit graph / arrangement record   *)
(* so that the algorithm specifications (Resolver.tla, Loader.tla) and the *)
(* trace monitor (ConfigObs.tla) share one source of truth.                *)
(*                                                                         *)
(* A graph G is a record                                                   *)
(*   pkeys : set of project keys (names; "_" is the unnamed root)          *)
(*   root  : key of the root project                                       *)
(*   ids   : set of target ids  "<pkey>::<name>"                           *)
(*   proj, name, kind : [ids -> ...]                                       *)
(*   deps, outs : [ids -> Seq([q : STRING, n : STRING])]   q = "" is bare  *)
(***************************************************************************)
EXTENDS Integers, Sequences, FiniteSets, TLC

Id(p, n) == p \o "::" \o n
SeqToSet(s) == {s[i] : i \in 1..Len(s)}

\* a reference is resolved in the project of the target that makes it unless qualified (C09, C19)
Resolve(from, ref) == Id(IF ref.q = "" THEN from ELSE ref.q, ref.n)

Refs(G, t) == {Resolve(G.proj[t], r) : r \in SeqToSet(G.deps[t]) \cup SeqToSet(G.outs[t])}
OutRefs(G, t) == {Resolve(G.proj[t], r) : r \in SeqToSet(G.outs[t])}

\* targets reachable from R through references to EXISTING targets
RECURSIVE ReachFrom(_, _, _)
ReachFrom(G, frontier, seen) ==
  IF frontier = {} THEN seen
  ELSE LET nxt == (UNION {Refs(G, t) : t \in frontier} \cap G.ids) \ (seen \cup frontier)
       IN ReachFrom(G, nxt, seen \cup frontier)
Reach(G, R) == ReachFrom(G, R \cap G.ids, {})

\* t can reach itself through at least one reference
OnCycle(G, t) == t \in ReachFrom(G, Refs(G, t) \cap G.ids, {})

\* C09: when must zinoma refuse to start?
Broken(G, R) ==
  \/ \E r \in R : r \notin G.ids                                        \* requested target unknown
  \/ \E t \in Reach(G, R) :
       \/ \E x \in Refs(G, t) : x \notin G.ids                          \* unknown project or target
       \/ OnCycle(G, t)                                                  \* closes a cycle
       \/ \E x \in OutRefs(G, t) : x \in G.ids /\ G.kind[x] # "b"        \* .output of a non-build target

\* C13: the dependencies and the input of a consumer once X.output is expanded
ExpectedDeps(G, t) == Refs(G, t)
ExpectedIn(G, t) == SeqToSet(G.ownIn[t]) \cup UNION {SeqToSet(G.ownOut[x]) : x \in OutRefs(G, t) \cap G.ids}

\* C19: the names accepted on the command line, and what they denote
Display(G, t) == IF G.proj[t] = "_" THEN G.name[t] ELSE t
CliNames(G) == {Display(G, t) : t \in G.ids} \cup {G.name[t] : t \in {u \in G.ids : G.proj[u] = G.root}}
Denotes(G, cli) == CHOOSE t \in G.ids : Display(G, t) = cli \/ (G.proj[t] = G.root /\ G.name[t] = cli)

-----------------------------------------------------------------------------
(* Import arrangements (C14).  An arrangement A is a record
     dirs : set of directory keys,  root : the root directory,
     exists, yamlok : [dirs -> BOOLEAN],
     pname : [dirs -> STRING]   "" = no name, names starting with "!" are syntactically invalid,
     imports : [dirs -> Seq([key : STRING, dir : STRING])]   dir may be outside dirs (missing directory) *)

RECURSIVE ReachDirs(_, _, _)
ReachDirs(A, frontier, seen) ==
  IF frontier = {} THEN seen
  ELSE LET ok == {d \in frontier : d \in A.dirs /\ A.exists[d] /\ A.yamlok[d]}
           nxt == {i.dir : i \in UNION {SeqToSet(A.imports[d]) : d \in ok}} \ (seen \cup frontier)
       IN ReachDirs(A, nxt, seen \cup frontier)
Loaded(A) == ReachDirs(A, {A.root}, {})

ValidName(n) == n # "" /\ SubSeq(n, 1, 1) # "!"

ArrangementOK(A) ==
  LET L == Loaded(A) IN
  /\ \A d \in L : d \in A.dirs /\ A.exists[d] /\ A.yamlok[d]
  /\ \A d \in L : A.pname[d] = "" \/ ValidName(A.pname[d])
  /\ \A d \in L : \A i \in SeqToSet(A.imports[d]) :
        i.dir \in A.dirs /\ A.pname[i.dir] # "" /\ A.pname[i.dir] = i.key     \* every import key equals the imported name
  /\ \A d, e \in L : (d # e /\ A.pname[d] # "") => A.pname[d] # A.pname[e]   \* project names unique

-----------------------------------------------------------------------------
(* Document structure (C14): a target is exactly one of build / service / aggregate, no unknown keys *)

TargetKeysOK(K) ==
  \/ "build" \in K /\ K \subseteq {"build", "dependencies", "input", "output"}
  \/ "service" \in K /\ K \subseteq {"service", "dependencies", "input"}
  \/ K = {"dependencies"}

ProjectKeysOK(K) == K \subseteq {"targets", "name", "imports"}

DocOK(D) == /\ ProjectKeysOK(SeqToSet(D.pkeys))
            /\ \A i \in 1..Len(D.targets) : TargetKeysOK(SeqToSet(D.targets[i].keys)) /\ ValidName(D.targets[i].name)
            /\ (D.pname = "" \/ ValidName(D.pname))
=============================================================================
