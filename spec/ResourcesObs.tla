----------------------------- MODULE ResourcesObs -----------------------------
(* Observable property specification for area D: each trace line is one generated tree + declaration with what zinoma
   listed / deleted / reported as relevant; compared with ResourceRules. *)
EXTENDS ResourceRules, Json, IOUtils

Rec == ndJsonDeserialize(IOEnv.TRACE)
VARIABLE l
vars == <<l>>

Viol(prop, sig) ==
  /\ PrintT("MONITOR-VIOLATION " \o prop \o " @" \o ToString(l) \o " " \o ToString(sig))
  /\ TLCSet(1, TLCGet(1) + 1)
CheckAll(props, sig, ok) == IF ok THEN TRUE ELSE \A p \in props : Viol(p, sig)

Tree(m) == SeqToSet(m.tree)
MustAll(t, rs) == UNION {Must(t, rs[i].paths, rs[i].exts) : i \in 1..Len(rs)}
MayAny(t, rs, f) == \E i \in 1..Len(rs) : MayList(t, rs[i].paths, rs[i].exts, f)
MustRemoveAll(t, rs) == UNION {MustRemove(t, rs[i].paths, rs[i].exts) : i \in 1..Len(rs)}
MayRemoveAll(t, rs) == UNION {MayRemove(t, rs[i].paths, rs[i].exts) \cup MayRemoveWorkDir(t, rs[i].paths, rs[i].exts) : i \in 1..Len(rs)}

ListCase(e) ==
  LET t == Tree(e.m)  listed == SeqToSet(e.obs.listed) IN
  /\ CheckAll({"C15"}, <<"panic-or-error", e.id>>, e.obs.ok)
  /\ CheckAll({"C15"} \cup SeqToSet(e.m.also), <<"denoted-file-not-listed", e.id, MustAll(t, e.m.resources) \ listed>>,
              e.obs.ok => MustAll(t, e.m.resources) \subseteq listed)
  /\ CheckAll({"C15"} \cup SeqToSet(e.m.also), <<"listed-file-not-denoted", e.id, {f \in listed \ MustAll(t, e.m.resources) : ~MayAny(t, e.m.resources, f)}>>,
              e.obs.ok => \A f \in listed \ MustAll(t, e.m.resources) : MayAny(t, e.m.resources, f))

CleanCase(e) ==
  LET t == Tree(e.m)  removed == SeqToSet(e.obs.removed) IN
  /\ CheckAll({"C12"}, <<"panic-or-error", e.id>>, e.obs.ok)
  /\ CheckAll({"C12", "C15"}, <<"declared-output-not-removed", e.id, MustRemoveAll(t, e.m.resources) \ removed>>,
              e.obs.ok => MustRemoveAll(t, e.m.resources) \subseteq removed)
  /\ CheckAll({"C12", "C15"}, <<"deleted-something-else", e.id, removed \ (MustRemoveAll(t, e.m.resources) \cup MayRemoveAll(t, e.m.resources))>>,
              removed \subseteq MustRemoveAll(t, e.m.resources) \cup MayRemoveAll(t, e.m.resources))

WatchCase(e) ==
  \A i \in 1..Len(e.m.ops) :
    LET op == e.m.ops[i]  r == e.obs.results[i]
        RelAny(f) == \E k \in 1..Len(e.m.resources) :
                        /\ \E d \in SeqToSet(e.m.resources[k].paths) : IsPrefix(d, f)
                        /\ Relevant(f, e.m.resources[k].exts)
        rel == RelAny(op.p) \/ (op.kind \in {"rename", "mvdir"} /\ RelAny(op.to)) IN
    /\ CheckAll({"C16"}, <<"watcher-dead-after", e.id, op.kind, op.p>>, r.alive)
    /\ CheckAll({"C16"} \cup SeqToSet(e.m.also), <<"relevant-change-not-reported", e.id, op.kind, op.p>>, (op.check /\ rel /\ r.alive) => r.triggered)
    /\ CheckAll({"C16"} \cup SeqToSet(e.m.also), <<"irrelevant-change-reported", e.id, op.kind, op.p>>, (op.check /\ ~rel) => ~r.triggered)
    \* conformance of each callback of the real watchers to Watcher.tla (r.cbs: what the watcher of one extension group reported
    \* as relevant during this operation, the sentinel excluded):
    \*   Callback(e): a reported path passes the filter of the reporting group
    /\ \A j \in 1..Len(r.cbs) : \A p \in SeqToSet(r.cbs[j].paths) :
          CheckAll({"C16", "C15"}, <<"callback-reports-a-path-its-own-filter-excludes", e.id, p, r.cbs[j].exts>>, Relevant(p, r.cbs[j].exts))
    \*   NothingExtra: the reporting group exists and the path lies below one of that group's declared paths
    /\ \A j \in 1..Len(r.cbs) : \A p \in SeqToSet(r.cbs[j].paths) :
          CheckAll({"C16"}, <<"watcher-reports-outside-the-paths-of-its-group", e.id, p, r.cbs[j].exts>>,
                   \E k \in 1..Len(e.m.resources) : /\ NormExts(e.m.resources[k].exts) = NormExts(r.cbs[j].exts)
                                                      /\ \E d \in SeqToSet(e.m.resources[k].paths) : IsPrefix(d, p))
    \*   GroupingFaithful: a change of one file is reported by the watcher of EVERY entry that makes it relevant
    /\ IF op.kind \in {"create", "modify", "delete"} /\ op.check /\ r.alive
       THEN \A k \in 1..Len(e.m.resources) :
              CheckAll({"C16"} \cup SeqToSet(e.m.also), <<"relevant-change-not-reported-by-the-watcher-of-its-entry", e.id, op.kind, op.p, e.m.resources[k].exts>>,
                       ((\E d \in SeqToSet(e.m.resources[k].paths) : IsPrefix(d, op.p)) /\ Relevant(op.p, e.m.resources[k].exts))
                         => \E j \in 1..Len(r.cbs) : NormExts(r.cbs[j].exts) = NormExts(e.m.resources[k].exts) /\ op.p \in SeqToSet(r.cbs[j].paths))
       ELSE TRUE

Step(e) == CASE e.kindcase = "list" -> ListCase(e)
             [] e.kindcase = "clean" -> CleanCase(e)
             [] e.kindcase = "watch" -> WatchCase(e)
             [] OTHER -> TRUE

Init == l = 1 /\ TLCSet(1, 0)
Next == l <= Len(Rec) /\ Step(Rec[l]) /\ l' = l + 1
Spec == Init /\ [][Next]_vars
Accepted == /\ IF TLCGet("stats").diameter = Len(Rec) + 1 THEN TRUE
               ELSE PrintT(<<"TRACE-NOT-CONSUMED", TLCGet("stats").diameter, Len(Rec)>>) /\ FALSE
            /\ PrintT(<<"TRACE-LINES", Len(Rec)>>)
            /\ TLCGet(1) = 0
=============================================================================
