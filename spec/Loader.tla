-------------------------------- MODULE Loader --------------------------------
(***************************************************************************)
(* config/yaml/mod.rs Config::load: recursive add_project with the visited *)
(* map, on every arrangement of up to three directories (import cycles,    *)
(* self-imports, missing directories, unnamed / misnamed / homonymous      *)
(* projects).  Imports are iterated in EVERY order (they sit in a hash     *)
(* map): the verdict must not depend on it.  Checked against ConfigRules.  *)
(***************************************************************************)
EXTENDS ConfigRules

CONSTANTS UniqueNames,     \* TRUE = the loader rejects homonymous projects (repair of F7)
          Dirs            \* directories of the arrangement; "d0" is the root

VARIABLES A, stack, visited, st, steps
vars == <<A, stack, visited, st, steps>>

Names == {"", "x", "y", "!bad"}
ImportSets == {s \in SUBSET [key : {"x", "y"}, dir : Dirs \cup {"gone"}] : Cardinality(s) <= 2}
SetToSeqs(S) == {q \in [1..Cardinality(S) -> S] : \A i, j \in 1..Cardinality(S) : i # j => q[i] # q[j]}

Init ==
  /\ A \in [dirs : {Dirs}, root : {"d0"}, exists : [Dirs -> BOOLEAN], yamlok : [Dirs -> BOOLEAN],
            pname : [Dirs -> Names],
            imports : {f \in [Dirs -> UNION {SetToSeqs(s) : s \in ImportSets}] : TRUE}]
  /\ A.exists["d0"]
  /\ \A d \in Dirs : ~A.exists[d] => (A.yamlok[d] = FALSE /\ A.pname[d] = "" /\ A.imports[d] = <<>>)
  /\ \A d \in Dirs : ~A.yamlok[d] => (A.pname[d] = "" /\ A.imports[d] = <<>>)
  /\ stack = <<>> /\ visited = {} /\ st = "start" /\ steps = 0

\* add_project(d): load, check names, canonicalise every import, insert; returns a frame or an error
CanLoad(d) == /\ d \in Dirs /\ A.exists[d] /\ A.yamlok[d]
              /\ (A.pname[d] = "" \/ ValidName(A.pname[d]))
              /\ (UniqueNames => (A.pname[d] = "" \/ \A v \in visited : A.pname[v] # A.pname[d]))
              /\ \A i \in SeqToSet(A.imports[d]) : i.dir \in Dirs /\ A.exists[i.dir]

Visit(d) ==
  IF d \in visited THEN UNCHANGED <<stack, visited, st>>
  ELSE IF CanLoad(d)
       THEN /\ visited' = visited \cup {d}
            /\ stack' = Append(stack, [d |-> d, todo |-> SeqToSet(A.imports[d]), cur |-> [key |-> "", dir |-> ""]])
            /\ st' = "run"
       ELSE st' = "err" /\ UNCHANGED <<stack, visited>>

Start == /\ st = "start" /\ steps' = steps + 1 /\ Visit("d0") /\ UNCHANGED A

\* take the next import of the top frame, in any order (hash map iteration)
Import == /\ st = "run" /\ stack # <<>>
          /\ LET f == stack[Len(stack)] IN
             /\ f.cur.dir = "" /\ f.todo # {}
             /\ \E i \in f.todo :
                  LET s1 == [stack EXCEPT ![Len(stack)].todo = @ \ {i}, ![Len(stack)].cur = i] IN
                  IF i.dir \in visited THEN stack' = s1 /\ UNCHANGED <<visited, st>>
                  ELSE IF CanLoad(i.dir)
                       THEN /\ visited' = visited \cup {i.dir}
                            /\ stack' = Append(s1, [d |-> i.dir, todo |-> SeqToSet(A.imports[i.dir]), cur |-> [key |-> "", dir |-> ""]])
                            /\ st' = st
                       ELSE st' = "err" /\ UNCHANGED <<stack, visited>>
          /\ steps' = steps + 1 /\ UNCHANGED A

\* the recursive call returned: the imported project must carry the name it was imported under
CheckName == /\ st = "run" /\ stack # <<>>
             /\ LET f == stack[Len(stack)] IN
                /\ f.cur.dir # ""
                /\ IF A.pname[f.cur.dir] # "" /\ A.pname[f.cur.dir] = f.cur.key
                   THEN stack' = [stack EXCEPT ![Len(stack)].cur = [key |-> "", dir |-> ""]] /\ st' = st
                   ELSE st' = "err" /\ stack' = stack
             /\ steps' = steps + 1 /\ UNCHANGED <<A, visited>>

Return == /\ st = "run" /\ stack # <<>>
          /\ stack[Len(stack)].cur.dir = "" /\ stack[Len(stack)].todo = {}
          /\ stack' = SubSeq(stack, 1, Len(stack) - 1)
          /\ st' = IF Len(stack) = 1 THEN "ok" ELSE st
          /\ steps' = steps + 1 /\ UNCHANGED <<A, visited>>

Next == Start \/ Import \/ CheckName \/ Return \/ (st \in {"ok", "err"} /\ UNCHANGED vars)
Spec == Init /\ [][Next]_vars /\ WF_vars(Next)

\* C14: accepted exactly when the arrangement is valid - in every iteration order - and then names are unique
VerdictRight == /\ st = "ok" => ArrangementOK(A) /\ visited = Loaded(A)
                /\ st = "err" => ~ArrangementOK(A)
Bounded == steps <= 20
Terminates == <>(st \in {"ok", "err"})
=============================================================================
