------------------------------ MODULE EngineObs ------------------------------
(***************************************************************************)
(* Observable property specification for the engine (areas A and E).       *)
(* It mentions only what an outside observer sees: messages as they are    *)
(* received, script starts / results, service starts / stops, the root's   *)
(* decisions, exit.  Each listed property is a named predicate evaluated   *)
(* when the relevant event is consumed.  A trace of the implementation     *)
(* (file IOEnv.TRACE, one JSON object per line, produced by                *)
(* tools/project.py from the hook log) is folded through Step; every       *)
(* failing predicate is printed as MONITOR-VIOLATION and counted in TLC    *)
(* register 1.  The same predicates, over Engine.tla's history variables,  *)
(* are the invariants TLC checks on the design.                             *)
(***************************************************************************)
EXTENDS Integers, Sequences, FiniteSets, TLC, Json, IOUtils

Rec == ndJsonDeserialize(IOEnv.TRACE)

VARIABLES
  l,          \* next line of Rec
  g,          \* configuration of the current run: [n, kind, deps, roots, watch, inh]
  word,       \* [T -> [T -> [{"b","s"} -> {"none","ok","inv"}]]]
  ready, failed, nStart, nSkip,
  inst,       \* [T -> set of live service pids]
  shells,     \* [T -> number of live build shells]
  lastRes,    \* [T -> "none" | "completed" | "skipped" | "failed" | "cancelled" | "started"]
  ver,        \* [T -> current version of own inputs] (driver's edits)
  gen,        \* [T -> generation of outputs] (completed scripts)
  builtFrom,  \* [T -> version vector the last completed script saw, <<-1>> if none]
  sees,       \* [T -> version vector the running script saw]
  signalled, rootErr, waited,
  begunOK,    \* [T -> BOOLEAN] the dependencies were ready when the current run of t was decided
  stale,      \* [T -> set of dependencies (through aggregates) that completed a run after t's last run was decided]
  lastFin     \* [T -> outcome of the last script: "none", "ok", "fail", "cancelled"]

mon == <<g, word, ready, failed, nStart, nSkip, inst, shells, lastRes, ver, gen, builtFrom, sees,
         signalled, rootErr, waited, begunOK, lastFin, stale>>
vars == <<l, g, word, ready, failed, nStart, nSkip, inst, shells, lastRes, ver, gen, builtFrom, sees,
          signalled, rootErr, waited, begunOK, lastFin, stale>>

T == 1..g.n
EK == {"b", "s"}

Viol(prop, sig) ==
  /\ PrintT("MONITOR-VIOLATION " \o prop \o " @" \o ToString(l) \o " " \o ToString(sig))
  /\ TLCSet(1, TLCGet(1) + 1)

\* evaluate a predicate, report when it fails; always TRUE so that the fold goes on
Check(prop, sig, ok) == IF ok THEN TRUE ELSE Viol(prop, sig)
\* the same failing fact may breach several listed properties
CheckAll(props, sig, ok) == IF ok THEN TRUE ELSE \A p \in props : Viol(p, sig)

Deps(t) == {g.deps[t][i] : i \in 1..Len(g.deps[t])}
Roots == {g.roots[i] : i \in 1..Len(g.roots)}
Inh(t) == {g.inh[t][i] : i \in 1..Len(g.inh[t])}

RECURSIVE TransDeps(_)
TransDeps(t) == Deps(t) \cup UNION {TransDeps(d) : d \in Deps(t)}
Closure == Roots \cup UNION {TransDeps(r) : r \in Roots}
RECURSIVE EffDeps(_)
EffDeps(t) == UNION {IF g.kind[d] = "a" THEN EffDeps(d) ELSE {d} : d \in Deps(t)}
\* the targets whose run must be re-decided after d completed one: those that reach d through aggregates only
Dependents(d) == {t \in 1..g.n : g.kind[t] # "a" /\ d \in EffDeps(t)}
MarkStale(d) == [t \in 1..g.n |-> IF t \in Dependents(d) THEN stale[t] \cup {d} ELSE stale[t]]

RECURSIVE ServiceBehind(_)
ServiceBehind(t) == \/ g.kind[t] = "s"
                    \/ g.kind[t] = "a" /\ \E d \in Deps(t) : ServiceBehind(d)

RECURSIVE BuildBehind(_)
BuildBehind(t) == \/ g.kind[t] = "b"
                  \/ g.kind[t] = "a" /\ \E d \in Deps(t) : BuildBehind(d)

RECURSIVE SortedSeq(_)
SortedSeq(S) == IF S = {} THEN <<>>
                ELSE LET m == CHOOSE x \in S : \A y \in S : x <= y IN <<m>> \o SortedSeq(S \ {m})
EffIn(t) == <<ver[t]>> \o [i \in 1..Len(SortedSeq(Inh(t))) |-> gen[SortedSeq(Inh(t))[i]]]

-----------------------------------------------------------------------------
(* The predicates *)

\* C01 (and the start half of C07)
StartOK(t) ==
  /\ g.scale \/ \A d \in Deps(t) : \A k \in EK : word[t][d][k] = "ok"
  /\ ~g.watch => /\ \A d \in EffDeps(t) : ready[d]
                 /\ \A d \in TransDeps(t) : ~failed[d]
\* which properties a premature start breaches: always C01; C11 when a service it needs is not up;
\* C07 when something it depends on has failed
StartProps(t) == {"C01"} \cup (IF ~g.watch /\ \E d \in EffDeps(t) : g.kind[d] = "s" /\ ~ready[d] THEN {"C11"} ELSE {})
                        \cup (IF ~g.scale /\ \E d \in Deps(t) : g.kind[d] = "s" /\ word[t][d]["s"] # "ok" THEN {"C11"} ELSE {})
                        \cup (IF ~g.watch /\ \E d \in TransDeps(t) : failed[d] THEN {"C07"} ELSE {})
\* C01: an aggregate forwards Ok{k} only when all its dependencies' last word for k is ok
AggOK(t, k) == \A d \in Deps(t) : word[t][d][k] = "ok"
\* C08
OnceOK(t) == /\ ~g.watch => nStart[t] + nSkip[t] = 0
             /\ t \in Closure
\* C04/C08/C20 at a successful one-shot end (exit 0 without signal, or waiting for the signal)
CompleteOK == \A t \in Closure : /\ g.kind[t] = "b" => nStart[t] + nSkip[t] = 1 /\ ready[t]
                                 /\ g.kind[t] = "s" => nStart[t] = 1 /\ ready[t]
\* C17: with never-finishing (slow) scripts parked, everything that does not depend on them is done
Slow == {g.slow[i] : i \in 1..Len(g.slow)}
IndependentOK == \A t \in Closure : (\A d \in TransDeps(t) \cup {t} : ~failed[d] /\ d \notin Slow)
                                          => (g.kind[t] = "a" \/ ready[t])
\* C06 at a quiescent point of a watch run
\* a failure excuses t only if the failed execution started from the current inputs (Engine.tla, Blocked)
Blocked(t) == \/ \E d \in TransDeps(t) : failed[d]
              \/ failed[t] /\ sees[t] = EffIn(t)
\* ... and was (re-)decided after every dependency it reaches through aggregates completed its own last run
OrderOK == \A t \in Closure : (~Blocked(t) /\ g.kind[t] # "a") => stale[t] = {}
UpToDateOK(e) == \A t \in Closure : ~Blocked(t) =>
   /\ g.kind[t] = "b" => builtFrom[t] = EffIn(t) /\ t \in {e.executed[i] : i \in 1..Len(e.executed)}
   /\ g.kind[t] = "s" => t \in {e.executed[i] : i \in 1..Len(e.executed)} /\ inst[t] # {}

-----------------------------------------------------------------------------

InitMon(c) ==
  /\ g = c
  /\ word = IF c.scale THEN <<>> ELSE [t \in 1..c.n |-> [d \in 1..c.n |-> [k \in EK |-> "none"]]]
  /\ ready = [t \in 1..c.n |-> FALSE] /\ failed = [t \in 1..c.n |-> FALSE]
  /\ nStart = [t \in 1..c.n |-> 0] /\ nSkip = [t \in 1..c.n |-> 0]
  /\ inst = [t \in 1..c.n |-> {}] /\ shells = [t \in 1..c.n |-> 0]
  /\ lastRes = [t \in 1..c.n |-> "none"]
  /\ ver = [t \in 1..c.n |-> 0] /\ gen = [t \in 1..c.n |-> 0]
  /\ builtFrom = [t \in 1..c.n |-> IF t \in {c.rec[i] : i \in 1..Len(c.rec)}
                                    THEN <<0>> \o [i \in 1..Len(c.inh[t]) |-> 0] ELSE <<-1>>]
  /\ sees = [t \in 1..c.n |-> <<-1>>]
  /\ signalled = FALSE /\ rootErr = 0 /\ waited = FALSE
  /\ begunOK = [t \in 1..c.n |-> TRUE] /\ lastFin = [t \in 1..c.n |-> "none"] /\ stale = [t \in 1..c.n |-> {}]

Init == l = 1 /\ TLCSet(1, 0) /\ InitMon(Rec[1].cfg) /\ Rec[1].e = "cfg"

Keep(vs) == UNCHANGED vs

Step(e) ==
  CASE e.e = "cfg" ->
         \* a new run begins: the monitor restarts
         /\ g' = e.cfg
         /\ word' = IF e.cfg.scale THEN <<>> ELSE [t \in 1..e.cfg.n |-> [d \in 1..e.cfg.n |-> [k \in EK |-> "none"]]]
         /\ ready' = [t \in 1..e.cfg.n |-> FALSE] /\ failed' = [t \in 1..e.cfg.n |-> FALSE]
         /\ nStart' = [t \in 1..e.cfg.n |-> 0] /\ nSkip' = [t \in 1..e.cfg.n |-> 0]
         /\ inst' = [t \in 1..e.cfg.n |-> {}] /\ shells' = [t \in 1..e.cfg.n |-> 0]
         /\ lastRes' = [t \in 1..e.cfg.n |-> "none"]
         /\ ver' = [t \in 1..e.cfg.n |-> 0] /\ gen' = [t \in 1..e.cfg.n |-> 0]
         /\ builtFrom' = [t \in 1..e.cfg.n |-> IF t \in {e.cfg.rec[i] : i \in 1..Len(e.cfg.rec)}
                             THEN <<0>> \o [i \in 1..Len(e.cfg.inh[t]) |-> 0] ELSE <<-1>>]
         /\ sees' = [t \in 1..e.cfg.n |-> <<-1>>]
         /\ signalled' = FALSE /\ rootErr' = 0 /\ waited' = FALSE
         /\ begunOK' = [t \in 1..e.cfg.n |-> TRUE] /\ lastFin' = [t \in 1..e.cfg.n |-> "none"] /\ stale' = [t \in 1..e.cfg.n |-> {}]
    [] e.e = "recv" ->
         /\ word' = IF e.ty \in {"ok", "inv"} THEN [word EXCEPT ![e.t][e.from][e.k] = e.ty] ELSE word
         /\ Keep(<<g, ready, failed, nStart, nSkip, inst, shells, lastRes, ver, gen, builtFrom, sees, signalled, rootErr, waited, begunOK, lastFin, stale>>)
    [] e.e = "begin" ->     \* the actor decided to run t (loop-top test passed)
         /\ CheckAll(StartProps(e.t), <<"start-before-deps-ready", e.t>>, StartOK(e.t))
         /\ begunOK' = [begunOK EXCEPT ![e.t] = StartOK(e.t)]
         /\ stale' = [stale EXCEPT ![e.t] = {}]
         /\ Keep(<<g, word, ready, failed, nStart, nSkip, inst, shells, lastRes, ver, gen, builtFrom, sees, signalled, rootErr, waited, lastFin>>)
    [] e.e = "start" ->
         \* F10: a dependency's out-of-date notice arriving between the decision and the spawn is a known finding
         /\ CheckAll(StartProps(e.t), <<IF begunOK[e.t] THEN "invalidated-between-decision-and-spawn" ELSE "start-before-deps-ready", e.t>>, StartOK(e.t))
         /\ Check("C08", <<"executed-twice-or-outside-closure", e.t>>, OnceOK(e.t))
         /\ Check("C08", <<"two-build-shells", e.t>>, shells[e.t] = 0)
         /\ nStart' = [nStart EXCEPT ![e.t] = @ + 1]
         /\ shells' = [shells EXCEPT ![e.t] = @ + 1]
         /\ sees' = [sees EXCEPT ![e.t] = EffIn(e.t)]
         /\ lastRes' = [lastRes EXCEPT ![e.t] = "started"]
         /\ lastFin' = [lastFin EXCEPT ![e.t] = "none"]
         /\ Keep(<<g, word, ready, failed, nSkip, inst, ver, gen, builtFrom, signalled, rootErr, waited, begunOK, stale>>)
    [] e.e = "skip" ->
         /\ Check("C08", <<"executed-twice-or-outside-closure", e.t>>, OnceOK(e.t))
         /\ Check(IF g.watch THEN "C06" ELSE "C02", <<"stale-skip", e.t>>, builtFrom[e.t] = EffIn(e.t))
         /\ nSkip' = [nSkip EXCEPT ![e.t] = @ + 1]
         /\ Keep(<<g, word, ready, failed, nStart, inst, shells, lastRes, ver, gen, builtFrom, sees, signalled, rootErr, waited, begunOK, lastFin, stale>>)
    [] e.e = "finish" ->    \* the script ended: ok / fail / cancelled (shell reaped)
         /\ shells' = [shells EXCEPT ![e.t] = IF @ > 0 THEN @ - 1 ELSE 0]
         /\ gen' = IF e.outcome = "ok" THEN [gen EXCEPT ![e.t] = @ + 1] ELSE gen
         /\ builtFrom' = IF e.outcome = "ok" THEN [builtFrom EXCEPT ![e.t] = sees[e.t]] ELSE builtFrom
         /\ lastFin' = [lastFin EXCEPT ![e.t] = e.outcome]
         /\ Keep(<<g, word, ready, failed, nStart, nSkip, inst, lastRes, ver, sees, signalled, rootErr, waited, begunOK, stale>>)
    [] e.e = "result" ->    \* the actor learnt the outcome of its build
         /\ CheckAll({"C07", "C05"}, <<"script-failure-not-reported-as-failure", e.t, e.res>>,
                     (e.res # "skipped" /\ lastFin[e.t] = "fail") => e.res = "failed")
         /\ Check("C05", <<"cancelled-or-failed-script-reported-as-completed", e.t>>,
                  e.res = "completed" => lastFin[e.t] = "ok")
         /\ lastRes' = [lastRes EXCEPT ![e.t] = e.res]
         \* readiness follows what the script actually did (its exit as observed), not what the actor made of it
         /\ ready' = IF e.res \in {"completed", "skipped"} /\ lastFin[e.t] \notin {"fail", "cancelled"} THEN [ready EXCEPT ![e.t] = TRUE] ELSE ready
         /\ failed' = IF e.res = "failed" \/ (e.res # "skipped" /\ lastFin[e.t] = "fail") THEN [failed EXCEPT ![e.t] = TRUE]
                      ELSE IF e.res \in {"completed", "skipped"} THEN [failed EXCEPT ![e.t] = FALSE] ELSE failed
         \* only a build that really re-ran has rebuilt outputs that affect its dependents (a restarted service has none)
         /\ stale' = IF e.res = "completed" THEN MarkStale(e.t) ELSE stale
         /\ Keep(<<g, word, nStart, nSkip, inst, shells, ver, gen, builtFrom, sees, signalled, rootErr, waited, begunOK, lastFin>>)
    [] e.e = "svcstart" ->
         /\ CheckAll(StartProps(e.t), <<"service-start-before-deps-ready", e.t>>, StartOK(e.t))
         /\ Check("C08", <<"service-outside-closure-or-twice", e.t>>, e.t \in Closure /\ (~g.watch => nStart[e.t] = 0))
         /\ Check("C11", <<"two-instances", e.t>>, inst[e.t] = {})
         /\ inst' = [inst EXCEPT ![e.t] = @ \cup {e.pid}]
         /\ nStart' = [nStart EXCEPT ![e.t] = @ + 1]
         /\ ready' = [ready EXCEPT ![e.t] = TRUE]
         /\ failed' = [failed EXCEPT ![e.t] = FALSE]
         /\ stale' = [stale EXCEPT ![e.t] = {}]
         /\ Keep(<<g, word, nSkip, shells, lastRes, ver, gen, builtFrom, sees, signalled, rootErr, waited, begunOK, lastFin>>)
    [] e.e = "svcstop" ->
         /\ inst' = [inst EXCEPT ![e.t] = @ \ {e.pid}]
         /\ Keep(<<g, word, ready, failed, nStart, nSkip, shells, lastRes, ver, gen, builtFrom, sees, signalled, rootErr, waited, begunOK, lastFin, stale>>)
    [] e.e = "svcfail" ->
         /\ Check("C01", <<"service-start-before-deps-ready", e.t>>, StartOK(e.t))
         /\ failed' = [failed EXCEPT ![e.t] = TRUE]
         /\ sees' = [sees EXCEPT ![e.t] = EffIn(e.t)]
         /\ Keep(<<g, word, ready, nStart, nSkip, inst, shells, lastRes, ver, gen, builtFrom, signalled, rootErr, waited, begunOK, lastFin, stale>>)
    [] e.e = "send" ->
         /\ CheckAll({"C01", "C20"} \cup (IF e.k = "s" THEN {"C11"} ELSE {}), <<"aggregate-forwards-early", e.t, e.k>>,
                  (g.kind[e.t] = "a" /\ e.ty = "ok") => AggOK(e.t, e.k))
         /\ CheckAll({"C11", "C20"}, <<"aggregate-wrong-actual-flag", e.t, e.k>>,
                  (g.kind[e.t] = "a" /\ e.ty = "ok" /\ AggOK(e.t, e.k)) =>
                      (e.act <=> \E d \in Deps(e.t) : IF e.k = "s" THEN ServiceBehind(d) ELSE BuildBehind(d)))
         /\ Check("C07", <<"ok-from-failed-target", e.t>>,
                  (g.kind[e.t] # "a" /\ e.ty = "ok" /\ e.act) => ~failed[e.t] /\ ready[e.t])
         /\ Check("C11", <<"wrong-actual-flag", e.t, e.k>>,
                  (e.ty = "ok" /\ g.kind[e.t] # "a") => (e.act <=> ((g.kind[e.t] = "b" /\ e.k = "b") \/ (g.kind[e.t] = "s" /\ e.k = "s"))))
         /\ UNCHANGED mon
    [] e.e = "rooterr" ->
         /\ Check("C07", <<"error-names-target-that-did-not-fail", e.t>>, failed[e.t])
         /\ rootErr' = e.t
         /\ Keep(<<g, word, ready, failed, nStart, nSkip, inst, shells, lastRes, ver, gen, builtFrom, sees, signalled, waited, begunOK, lastFin, stale>>)
    [] e.e = "edit" ->
         /\ ver' = [ver EXCEPT ![e.t] = e.ver]
         /\ Keep(<<g, word, ready, failed, nStart, nSkip, inst, shells, lastRes, gen, builtFrom, sees, signalled, rootErr, waited, begunOK, lastFin, stale>>)
    [] e.e = "signal" ->
         /\ signalled' = TRUE
         /\ Keep(<<g, word, ready, failed, nStart, nSkip, inst, shells, lastRes, ver, gen, builtFrom, sees, rootErr, waited, begunOK, lastFin, stale>>)
    [] e.e = "waitsig" ->
         /\ CheckAll({"C11", "C20"}, <<"kept-alive-without-requested-service">>, \E r \in Roots : ServiceBehind(r))
         /\ Check("C04", <<"waiting-for-signal-before-everything-ran">>, CompleteOK)
         /\ CheckAll({"C07", "C10"}, <<"kept-waiting-for-a-signal-although-a-target-failed">>, \A t \in Closure : ~failed[t])
         /\ waited' = TRUE
         /\ Keep(<<g, word, ready, failed, nStart, nSkip, inst, shells, lastRes, ver, gen, builtFrom, sees, signalled, rootErr, begunOK, lastFin, stale>>)
    [] e.e = "proc" ->      \* process table scan by the driver after zinoma exited
         /\ CheckAll({"C10"} \cup (IF \E t \in Closure : g.kind[t] = "s" THEN {"C11"} ELSE {}),
                     <<"spawned-process-survives-zinoma", e.alive>>, e.alive = 0)
         /\ UNCHANGED mon
    [] e.e = "latency" ->   \* milliseconds between the signal and the exit (scripts sleep 600 s)
         /\ Check("C10", <<"exit-not-prompt-after-signal", e.ms>>, e.ms <= 5000)
         /\ UNCHANGED mon
    [] e.e = "names" ->
         /\ Check("C07", <<"error-does-not-name-failing-target">>, e.ok)
         /\ UNCHANGED mon
    [] e.e = "watchrun" ->  \* a free-running watch session of the real binary on real inotify, as observed by the driver
         /\ CheckAll({"C06"}, <<"watch-session-ended-by-itself">>, ~e.early)
         /\ CheckAll({"C06", "C16"}, <<"last-change-not-built", e.inv, e.outv>>, ~e.early => e.outv = e.inv)
         /\ CheckAll({"C16", "C06"}, <<"rebuilds-without-any-change", e.extra>>, e.extra = 0)
         /\ UNCHANGED mon
    [] e.e = "indep" ->     \* when a target that depends on nothing slow got to run, while 6-second command probes of others ran
         /\ Check("C17", <<"independent-target-delayed-by-unrelated-work", e.ms>>, e.ms <= 3000)
         /\ UNCHANGED mon
    [] e.e = "exit" ->
         /\ CheckAll({"C10"} \cup (IF \E t \in T : inst[t] # {} THEN {"C11"} ELSE {}), <<"process-alive-at-exit">>,
                  \A t \in T : inst[t] = {} /\ shells[t] = 0)
         /\ Check("C10", <<"actor-not-joined-at-exit">>,
                  {e.launched[i] : i \in 1..Len(e.launched)} \subseteq {e.exited[i] : i \in 1..Len(e.exited)})
         /\ Check("C07", <<"exit-status-0-after-failure">>,
                  (~g.watch /\ e.status = 0 /\ ~signalled) => \A t \in Closure : ~failed[t])
         /\ Check("C07", <<"exit-status-1-without-failure">>,
                  e.status = 1 => (rootErr # 0 /\ failed[rootErr]))
         /\ CheckAll({"C04", "C08", "C20"}, <<"exit-0-before-everything-ran">>,
                  (~g.watch /\ e.status = 0 /\ ~signalled) => CompleteOK)
         /\ CheckAll({"C11", "C20"}, <<"exit-without-signal-while-service-requested">>,
                  (~g.watch /\ e.status = 0 /\ ~signalled) => ~\E r \in Roots : ServiceBehind(r))
         /\ Check("C06", <<"watch-exit-without-signal">>, g.watch => signalled)
         /\ UNCHANGED mon
    [] e.e = "end" ->       \* the driver certifies that nothing is enabled (or stopped the run)
         /\ CheckAll({"C04"} \cup (IF \E r \in Roots : g.kind[r] = "a" THEN {"C20"} ELSE {}),
                     <<"stuck-waiting-for-acknowledgement", e.status>>, e.status # "stuck")
         /\ Check("C17", <<"independent-target-not-run-while-slow-script-runs">>,
                  (~g.watch /\ e.status = "idle" /\ ~signalled /\ ~waited) => IndependentOK)
         /\ Check("C10", <<"signal-not-honoured", e.status>>, e.status # "stall-after-signal")
         /\ CheckAll({"C17"} \cup (IF g.watch THEN {} ELSE {"C04"}) \cup (IF rootErr # 0 THEN {"C10"} ELSE {}),
                     <<"stall", e.status>>, e.status # "stall")
         /\ Check("C06", <<"quiescent-but-not-up-to-date">>, (g.watch /\ e.status = "idle" /\ ~signalled) => UpToDateOK(e))
         /\ CheckAll({"C06"} \cup (IF \E t \in 1..g.n : g.kind[t] = "a" THEN {"C20"} ELSE {}),
                     <<"not-re-run-after-its-dependency-finished", {t \in Closure : stale[t] # {}}>>,
                     (g.watch /\ ~g.scale /\ e.status = "idle" /\ ~signalled) => OrderOK)
         /\ UNCHANGED mon
    [] OTHER -> UNCHANGED mon

Next == /\ l <= Len(Rec)
        /\ l' = l + 1
        /\ IF l = 1 THEN UNCHANGED mon
           ELSE Step(Rec[l])

Spec == Init /\ [][Next]_vars

\* acceptance: every line consumed and no predicate failed
Accepted == /\ IF TLCGet("stats").diameter = Len(Rec) + 1 THEN TRUE
               ELSE PrintT(<<"TRACE-NOT-CONSUMED", TLCGet("stats").diameter, Len(Rec)>>) /\ FALSE
            /\ PrintT(<<"TRACE-LINES", Len(Rec)>>)
            /\ TLCGet(1) = 0
=============================================================================
