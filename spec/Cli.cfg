SPECIFICATION Spec
CONSTANTS MaxTargets = 2
INVARIANTS RefusedTouchesNothing OutsideUntouched CleanNeverSkips CleanAlone ExactlyOnce
CHECK_DEADLOCK FALSE
