----------------------------- MODULE Incremental -----------------------------
(***************************************************************************)
(* The incremental runner (src/engine/incremental/*, area B): one action   *)
(* per phase of incremental::run, user operations on the declared files    *)
(* between and during runs, process death in every phase, byte-granular    *)
(* state write, corruption of the state file.                              *)
(*                                                                         *)
(* The configuration (which paths each target declares as input / output,  *)
(* whether a producer's outputs are inherited, whether a target has any    *)
(* input at all) is chosen in Init.                                        *)
(***************************************************************************)
EXTENDS Integers, Sequences, FiniteSets, TLC

CONSTANTS
  Paths,        \* universe of file paths (model values or strings)
  NT,           \* number of targets (1..NT); target t may inherit the outputs of targets < t
  MaxM, MaxC,   \* mtimes 0..MaxM, contents 0..MaxC
  MaxOps,       \* bound on user operations
  MaxInv,       \* bound on invocations
  RecordBefore, \* TRUE: input state captured before the script (repair of F3)
  GuardNoInput, \* TRUE: a target without input is never skipped (repair of F11)
  Foreigns      \* TRUE: stale / foreign complete records may appear in a target's state file

T == 1..NT
Absent == [m |-> -1, c |-> -1]
File == [m : 0..MaxM, c : 0..MaxC]

VARIABLES
  inDecl, outDecl, inh,     \* configuration: [T -> SUBSET Paths], [T -> SUBSET T]
  fs,                       \* [Paths -> File \cup {Absent}]
  rec,                      \* [T -> record]: [k |-> "none"] | [k |-> "garbage"] | [k |-> "partial"] | [k |-> "full", i |-> snap, o |-> snap]
  pc,                       \* [T -> "idle","check","delete","capture","script","compute","write","written"]
  cap,                      \* [T -> snap] input snapshot captured by the running invocation
  newrec,                   \* [T -> record] the record being written
  lastOK,                   \* [T -> record] what the last run that succeeded AND finished its write recorded
  scriptSaw,                \* [T -> snap] what the script of the running invocation read
  builtFrom,                \* [T -> snap or NoSnap] inputs the current outputs were produced from
  nOps, nInv,
  skipped,                  \* [T -> BOOLEAN] the last decision (observation)
  foreign                   \* [T -> BOOLEAN] the state file of t was put there by somebody else (copy of another target's)

vars == <<inDecl, outDecl, inh, fs, rec, pc, cap, newrec, lastOK, scriptSaw, builtFrom, nOps, nInv, skipped, foreign>>

NoSnap == [p \in {} |-> Absent]
None == [k |-> "none"]

\* what a files resource denotes: the declared paths that exist (Resources.tla refines this)
Snap(S) == [p \in {q \in S : fs[q] # Absent} |-> fs[p]]

InSet(t) == inDecl[t] \cup UNION {outDecl[d] : d \in inh[t]}     \* X.output inheritance (C13)

\* resources_state/fs.rs eq_current_state: same path set; per file same mtime OR same content
SnapMatches(saved, cur) ==
  /\ DOMAIN saved = DOMAIN cur
  /\ \A p \in DOMAIN cur : saved[p].m = cur[p].m \/ saved[p].c = cur[p].c

Matches(r, t) == /\ r.k = "full"
                 /\ SnapMatches(r.i, Snap(InSet(t)))
                 /\ SnapMatches(r.o, Snap(outDecl[t]))

HasInput(t) == InSet(t) # {}       \* Resources::is_empty is about declarations, not about existing files

-----------------------------------------------------------------------------
(* zinoma *)

Invoke(t) == /\ pc[t] = "idle" /\ nInv < MaxInv
             /\ pc' = [pc EXCEPT ![t] = "check"] /\ nInv' = nInv + 1
             /\ UNCHANGED <<inDecl, outDecl, inh, fs, rec, cap, newrec, lastOK, scriptSaw, builtFrom, nOps, skipped, foreign>>

\* env_state_has_not_changed_since_last_successful_execution; an undecodable record is dropped (storage.rs:33-50)
Check(t) ==
  /\ pc[t] = "check"
  /\ IF (GuardNoInput => HasInput(t)) /\ Matches(rec[t], t)
     THEN /\ pc' = [pc EXCEPT ![t] = "idle"] /\ skipped' = [skipped EXCEPT ![t] = TRUE]
          /\ UNCHANGED <<rec, foreign>>
     ELSE /\ pc' = [pc EXCEPT ![t] = "delete"] /\ skipped' = [skipped EXCEPT ![t] = FALSE]
          /\ rec' = [rec EXCEPT ![t] = IF @.k \in {"garbage", "partial"} THEN None ELSE @]
          /\ foreign' = [foreign EXCEPT ![t] = IF rec[t].k \in {"garbage", "partial"} THEN FALSE ELSE @]
  /\ UNCHANGED <<inDecl, outDecl, inh, fs, cap, newrec, lastOK, scriptSaw, builtFrom, nOps, nInv>>

Delete(t) == /\ pc[t] = "delete"
             /\ rec' = [rec EXCEPT ![t] = None]
             /\ pc' = [pc EXCEPT ![t] = "capture"] /\ foreign' = [foreign EXCEPT ![t] = FALSE]
             /\ UNCHANGED <<inDecl, outDecl, inh, fs, cap, newrec, lastOK, scriptSaw, builtFrom, nOps, nInv, skipped>>

Capture(t) == /\ pc[t] = "capture"
              /\ cap' = [cap EXCEPT ![t] = Snap(InSet(t))]
              /\ pc' = [pc EXCEPT ![t] = "script"]
              /\ scriptSaw' = [scriptSaw EXCEPT ![t] = Snap(InSet(t))]   \* the script reads when it starts
              /\ UNCHANGED <<inDecl, outDecl, inh, fs, rec, newrec, lastOK, builtFrom, nOps, nInv, skipped, foreign>>

\* the script: may (re)write its outputs; succeeds, fails or is cancelled
ScriptOK(t) ==
  /\ pc[t] = "script"
  /\ \E W \in SUBSET outDecl[t] : \E f \in File :
       fs' = [p \in Paths |-> IF p \in W THEN f ELSE fs[p]]
  /\ builtFrom' = [builtFrom EXCEPT ![t] = scriptSaw[t]]
  /\ pc' = [pc EXCEPT ![t] = "compute"]
  /\ UNCHANGED <<inDecl, outDecl, inh, rec, cap, newrec, lastOK, scriptSaw, nOps, nInv, skipped, foreign>>

ScriptStop(t) ==      \* non-zero exit, launch failure, or cancellation by a termination signal
  /\ pc[t] = "script"
  /\ pc' = [pc EXCEPT ![t] = "idle"]
  /\ builtFrom' = [builtFrom EXCEPT ![t] = NoSnap]       \* outputs may be half written
  /\ UNCHANGED <<inDecl, outDecl, inh, fs, rec, cap, newrec, lastOK, scriptSaw, nOps, nInv, skipped, foreign>>

Compute(t) ==
  /\ pc[t] = "compute"
  /\ IF HasInput(t)
     THEN /\ newrec' = [newrec EXCEPT ![t] = [k |-> "full", i |-> IF RecordBefore THEN cap[t] ELSE Snap(InSet(t)),
                                                            o |-> Snap(outDecl[t])]]
          /\ pc' = [pc EXCEPT ![t] = "write"]
     ELSE /\ pc' = [pc EXCEPT ![t] = "idle"] /\ UNCHANGED newrec      \* Ok(None): nothing is stored
  /\ UNCHANGED <<inDecl, outDecl, inh, fs, rec, cap, lastOK, scriptSaw, builtFrom, nOps, nInv, skipped, foreign>>

\* File::create + sequential serialisation: the file is first a strict prefix, then complete
WritePartial(t) == /\ pc[t] = "write"
                   /\ rec' = [rec EXCEPT ![t] = [k |-> "partial"]]
                   /\ pc' = [pc EXCEPT ![t] = "written"] /\ foreign' = [foreign EXCEPT ![t] = FALSE]
                   /\ UNCHANGED <<inDecl, outDecl, inh, fs, cap, newrec, lastOK, scriptSaw, builtFrom, nOps, nInv, skipped>>

WriteFull(t) == /\ pc[t] = "written"
                /\ rec' = [rec EXCEPT ![t] = newrec[t]]
                /\ lastOK' = [lastOK EXCEPT ![t] = newrec[t]]
                /\ pc' = [pc EXCEPT ![t] = "idle"] /\ foreign' = [foreign EXCEPT ![t] = FALSE]
                /\ UNCHANGED <<inDecl, outDecl, inh, fs, cap, newrec, scriptSaw, builtFrom, nOps, nInv, skipped>>

\* zinoma dies (SIGKILL, power loss): enabled in every phase
Crash(t) == /\ pc[t] # "idle"
            /\ pc' = [pc EXCEPT ![t] = "idle"]
            /\ builtFrom' = [builtFrom EXCEPT ![t] = IF pc[t] = "script" THEN NoSnap ELSE @]
            /\ UNCHANGED <<inDecl, outDecl, inh, fs, rec, cap, newrec, lastOK, scriptSaw, nOps, nInv, skipped, foreign>>

\* --clean t (main.rs:72-87): state and declared outputs of t
Clean(t) == /\ \A u \in T : pc[u] = "idle"
            /\ nOps < MaxOps /\ nOps' = nOps + 1
            /\ rec' = [rec EXCEPT ![t] = None]
            /\ fs' = [p \in Paths |-> IF p \in outDecl[t] THEN Absent ELSE fs[p]]
            /\ builtFrom' = [builtFrom EXCEPT ![t] = NoSnap] /\ foreign' = [foreign EXCEPT ![t] = FALSE]
            /\ UNCHANGED <<inDecl, outDecl, inh, pc, cap, newrec, lastOK, scriptSaw, nInv, skipped>>

-----------------------------------------------------------------------------
(* the user / the world *)

UserOp ==
  /\ nOps < MaxOps /\ nOps' = nOps + 1
  /\ \E p \in Paths : \E f \in File \cup {Absent} : f # fs[p] /\ fs' = [fs EXCEPT ![p] = f]
  /\ UNCHANGED <<inDecl, outDecl, inh, rec, pc, cap, newrec, lastOK, scriptSaw, builtFrom, nInv, skipped, foreign>>

Corrupt(t) ==      \* truncated, overwritten, foreign or absurd-length state file: anything that does not decode
  /\ nOps < MaxOps /\ nOps' = nOps + 1
  /\ pc[t] = "idle" /\ rec[t].k # "garbage"
  /\ rec' = [rec EXCEPT ![t] = [k |-> "garbage"]] /\ foreign' = [foreign EXCEPT ![t] = FALSE]
  /\ UNCHANGED <<inDecl, outDecl, inh, fs, pc, cap, newrec, lastOK, scriptSaw, builtFrom, nInv, skipped>>

\* somebody copies the (complete) state file of target u over that of target t, or an old record of t itself survives a
\* change of t's declarations: the record decodes but was not written by a run of t as declared now
Foreign(t) ==
  /\ Foreigns /\ nOps < MaxOps /\ nOps' = nOps + 1 /\ pc[t] = "idle"
  /\ \E Si \in SUBSET {p \in Paths : fs[p] # Absent}, So \in SUBSET {p \in Paths : fs[p] # Absent} :
       rec' = [rec EXCEPT ![t] = [k |-> "full", i |-> Snap(Si), o |-> Snap(So)]]
  /\ foreign' = [foreign EXCEPT ![t] = TRUE]
  /\ UNCHANGED <<inDecl, outDecl, inh, fs, pc, cap, newrec, lastOK, scriptSaw, builtFrom, nInv, skipped>>

Next == \/ UserOp
        \/ \E t \in T : \/ Invoke(t) \/ Check(t) \/ Delete(t) \/ Capture(t) \/ ScriptOK(t) \/ ScriptStop(t)
                        \/ Compute(t) \/ WritePartial(t) \/ WriteFull(t) \/ Crash(t) \/ Clean(t) \/ Corrupt(t) \/ Foreign(t)

Init ==
  /\ inDecl \in [T -> SUBSET Paths] /\ outDecl \in [T -> SUBSET Paths]
  /\ \A t, u \in T : t # u => outDecl[t] \cap outDecl[u] = {}
  /\ inh \in [T -> SUBSET T] /\ \A t \in T : inh[t] \subseteq 1..(t - 1)
  /\ fs \in [Paths -> {Absent, [m |-> 0, c |-> 0]}]
  /\ rec = [t \in T |-> None] /\ pc = [t \in T |-> "idle"]
  /\ cap = [t \in T |-> NoSnap] /\ newrec = [t \in T |-> None] /\ lastOK = [t \in T |-> None]
  /\ scriptSaw = [t \in T |-> NoSnap] /\ builtFrom = [t \in T |-> NoSnap]
  /\ nOps = 0 /\ nInv = 0 /\ skipped = [t \in T |-> FALSE] /\ foreign = [t \in T |-> FALSE]

Spec == Init /\ [][Next]_vars

-----------------------------------------------------------------------------
(* Properties *)

\* C05: a complete record exists only as the result of a run that succeeded and finished its write
FullOnlyFromSuccess == \A t \in T : (rec[t].k = "full" /\ ~foreign[t]) => rec[t] = lastOK[t]

\* C02+C06 (semantic form): whenever a target would be skipped, its outputs were built from inputs that
\* are indistinguishable (same mtime or same content, same file set) from the current ones
SkipMeansUpToDate ==
  \A t \in T : (pc[t] = "idle" /\ Matches(rec[t], t) /\ ~foreign[t] /\ \A d \in inh[t] : pc[d] = "idle")
                   => SnapMatches(builtFrom[t], Snap(InSet(t)))

\* C03: after a complete successful run, with nothing touched, the next check skips
SkipComplete ==
  \A t \in T : (pc[t] = "idle" /\ HasInput(t) /\ rec[t].k = "full" /\ rec[t] = lastOK[t]
                /\ rec[t].i = Snap(InSet(t)) /\ rec[t].o = Snap(outDecl[t])) => Matches(rec[t], t)

\* C03: a target without input never gets a record, hence is always executed
NoInputNoRecord == \A t \in T : (~HasInput(t) /\ ~foreign[t]) => rec[t].k # "full"
\* ... whatever lies in its state file (action property): a skip decision is only ever taken for a target with input
NoInputNeverSkipped == [][\A t \in T : (pc[t] = "check" /\ pc'[t] = "idle" /\ skipped'[t]) => HasInput(t)]_vars

\* C18: a target's record changes only by its own runs / clean / corruption (action property)
RecIndependent == [][\A t \in T : rec'[t] # rec[t] =>
                        (pc[t] # "idle" \/ pc'[t] # pc[t] \/ rec'[t].k \in {"none", "garbage"} \/ foreign'[t])]_vars

TypeOK == \A t \in T : rec[t].k \in {"none", "garbage", "partial", "full"}
=============================================================================
