SPECIFICATION GSpec
CONSTANTS
  N = 3
  Watch = FALSE
  MaxChanges = 0
  Failures = TRUE
  Slow = FALSE
  Signals = TRUE
  Skips = TRUE
  Inherit = TRUE
  CapChan = 0
  CapInbox = 0
  AckLate = TRUE
  RecordBefore = TRUE
  StrictStart = FALSE
  Unrequests = FALSE
CHECK_DEADLOCK FALSE
