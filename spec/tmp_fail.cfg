SPECIFICATION Spec
CONSTANTS
  N = 3
  Watch = FALSE
  MaxChanges = 0
  Failures = TRUE
  Slow = FALSE
  Signals = FALSE
  Skips = FALSE
  Inherit = FALSE
  CapChan = 0
  CapInbox = 0
  AckLate = TRUE
  RecordBefore = TRUE
INVARIANTS
  TypeOK NoStepViolation OnceOnly ExitComplete ExitStatusRight KeepAlive ServiceUpForDependents SingleInstance CleanExit
CHECK_DEADLOCK TRUE
