---------------------------- MODULE MC_Engine ----------------------------
(* TLC-only wrapper: nothing here is part of the design. *)
EXTENDS Engine

\* hide pure observation variables that never influence behaviour from the fingerprint? No: they are
\* functions of the history that the invariants read, so they stay in the view.

Bounded == /\ \A t \in T : Len(inbox[t]) <= 8 /\ Len(out[t]) <= 8
=============================================================================
