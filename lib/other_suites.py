"""Dispatch of the non-engine properties to their suites."""
import incr_suite

INCR = ["C02", "C03", "C05", "C13", "C18"]


def _mod(pid):
    if pid in INCR:
        return incr_suite
    import cfg_suite, res_suite
    if pid in cfg_suite.PROPS:
        return cfg_suite
    if pid in res_suite.PROPS:
        return res_suite
    raise SystemExit("unknown property " + pid)


def suite(pid, tier, seed):
    return _mod(pid).suite(tier, seed)


def replay(pid, path):
    return _mod(pid).replay(pid, path)


def describe(pid, res):
    return _mod(pid).describe(pid, res)
