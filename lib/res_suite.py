"""Resources suite (properties C12 C15 C16).
 1. TLC checks the internal-consistency lemmas of ResourceRules.tla over every tree on a small universe (Resources.tla);
 2. generated trees x declarations are materialised on disk; zinoma's own listing (fs::list_files_in_resources through the real
    loader, so extension normalisation is zinoma's), cleaning (clean::clean_target_output_paths, and `--clean` of the real binary)
    and the REAL TargetWatcher (real inotify, every operation closed by a sentinel edit) are exercised;
 3. TLC folds the results through ResourcesObs.tla, i.e. compares them with the three-valued rules of ResourceRules.tla."""
import concurrent.futures as cf
import hashlib, json, os, random, re, time

from common import *  # noqa: F403

PROPS = ["C12", "C15", "C16"]
VIOL_RE = re.compile(r'^"?MONITOR-VIOLATION (C\d+) @(\d+) (.*?)"?$')

FILE_NAMES = ["a.txt", "b.csv", "c.tar.gz", "txt", ".txt", ".hidden", "d.txt~", ".e.swp", ".e.txt.swx", "f.TXT", "g.o", "h.out.csv",
              "noext", "i.txt.bak", "bad\xff.txt", "weird name.txt", "x.o", "y.gz"]
EXTS = [None, [], ["txt"], [".txt"], ["", "txt"], ["gz"], ["tar.gz"], ["TXT"], ["o", "csv"], [".o"], [""], ["out.csv"]]
DIRS = [["src"], ["src", "sub"], ["src", ".zinoma"], ["src", "sub", ".zinoma"], ["src", "sub", "deep"], ["out"], ["out", "sub"], ["lib"]]


def lossy(b):
    return b.decode("utf-8", "replace").replace("�", "?")


def comp_json(c):
    """component for the harness: plain string, or {"hex":..} when not UTF-8"""
    if isinstance(c, bytes):
        try:
            return c.decode("utf-8")
        except UnicodeDecodeError:
            return {"hex": c.hex()}
    return c


def name_bytes(n):
    return n.encode("latin-1") if "\xff" in n else n.encode()


def gen_tree(rng):
    """returns (nodes for the harness, abstract tree) ; project root = 'proj', an 'elsewhere' sibling holds link targets"""
    nodes, tree = [], []
    dirs = [d for d in DIRS if rng.random() < 0.6]
    dirs = [d for d in dirs if all(d[:i] in dirs or i == 0 for i in range(1, len(d)))]
    have = set()
    for d in sorted(dirs, key=len):
        if len(d) > 1 and tuple(d[:-1]) not in have:
            continue
        have.add(tuple(d))
        nodes.append({"path": {"segs": ["proj"] + d}, "type": "dir"})
        tree.append({"p": d, "ty": "dir", "to": ""})
    files = []
    for d in [[]] + [list(h) for h in have]:
        for n in rng.sample(FILE_NAMES, rng.randint(0, 5)):
            nb = name_bytes(n)
            nodes.append({"path": {"segs": ["proj"] + d + [comp_json(nb)]}, "type": "file", "content": n})
            tree.append({"p": d + [lossy(nb)], "ty": "file", "to": ""})
            files.append(d + [n])
    # elsewhere: real files reachable only through links
    nodes.append({"path": {"segs": ["elsewhere", "d", "sub"]}, "type": "dir"})
    for n in ("x.o", "keep.txt", "z.csv"):
        nodes.append({"path": {"segs": ["elsewhere", "d", n]}, "type": "file", "content": n})
    nodes.append({"path": {"segs": ["elsewhere", "d", "sub", "y.o"]}, "type": "file", "content": "y"})
    links = []
    if rng.random() < 0.5:
        links.append((["linkdir"], "../elsewhere/d", "dir"))
    if ("src",) in have and rng.random() < 0.4:
        links.append((["src", "inner"], "../../elsewhere/d/sub", "dir"))
    if ("src",) in have and rng.random() < 0.4:
        links.append((["src", "lf.txt"], "../../elsewhere/d/keep.txt", "file"))
    if ("out",) in have and rng.random() < 0.4:
        links.append((["out", "latest.o"], "../../elsewhere/d/x.o", "file"))
    if rng.random() < 0.3:
        links.append((["dangling.txt"], "nowhere/at/all", "none"))
    for p, to, kind in links:
        nodes.append({"path": {"segs": ["proj"] + p}, "type": "link", "to": to})
        tree.append({"p": p, "ty": "link", "to": kind})
    return nodes, tree, sorted(have), files


def gen_decl(rng, have, files):
    cands = [list(h) for h in have] + [["linkdir"], ["missing"], ["linkdir", "sub"], ["src", "inner"]]
    if files:
        cands += [f for f in rng.sample(files, min(2, len(files))) if "\xff" not in f[-1]]
    paths = rng.sample(cands, min(len(cands), rng.choice([1, 1, 2, 3])))
    return {"paths": paths, "exts": rng.choice(EXTS)}


def yaml_res(decls, key):
    lines = ["    %s:" % key]
    for d in decls:
        lines.append("      - paths: [%s]" % ", ".join("'%s'" % "/".join(p) for p in d["paths"]))
        if d["exts"] is not None:
            lines.append("        extensions: [%s]" % ", ".join("'%s'" % e for e in d["exts"]))
    return lines


def make_cases(tier, seed):
    rng = random.Random(seed * 17 + 3)
    quick = tier != "thorough"
    cases = []
    for k in range(1500 if quick else 20000):
        nodes, tree, have, files = gen_tree(rng)
        decls = [gen_decl(rng, have, files) for _ in range(rng.choice([1, 1, 2]))]
        kind = "list" if k % 2 == 0 else "clean"
        key = "input" if kind == "list" else "output"
        y = "\n".join(["targets:", "  t:", "    build: 'true'"] + yaml_res(decls, key)) + "\n"
        m = {"tree": tree, "resources": [{"paths": d["paths"], "exts": d["exts"] or []} for d in decls], "also": []}
        cases.append({"id": "%s%d" % (kind[0], k), "kindcase": kind, "m": m,
                      "job": {"id": "%s%d" % (kind[0], k), "tree": nodes, "project": "proj", "yaml": y, "requested": ["t"],
                              "clean": kind == "clean", "paths": []}})
    return cases


def make_watch_cases(tier, seed):
    rng = random.Random(seed * 19 + 7)
    quick = tier != "thorough"
    cases = []
    for k in range(100 if quick else 600):
        exts = rng.choice([None, ["txt"], ["csv", "o"], [".txt"], ["tar.gz"]])
        # sometimes the same path is listed by two input entries with different extensions
        exts2 = rng.choice([None, None, ["gz"], ["o"], ["TXT"]]) if exts is not None else None
        sext = ("." + exts[0].lstrip(".")) if exts else ".txt"
        tree = [{"path": {"segs": ["src", "sub"]}, "type": "dir"}, {"path": {"segs": ["src", ".zinoma"]}, "type": "dir"},
                {"path": {"segs": ["staging"]}, "type": "dir"},
                {"path": {"segs": ["src", "sentinel" + sext]}, "type": "file", "content": "s"}]
        sent = "src/sentinel" + sext
        ylines = ["targets:", "  t:", "    build: 'true'", "    input:", "      - paths: [src]"]
        if exts is not None:
            ylines.append("        extensions: [%s]" % ", ".join("'%s'" % e for e in exts))
        resources = [{"paths": [["src"]], "exts": exts or []}]
        inherited = False
        if exts2 is not None:
            if rng.random() < 0.5:
                ylines += ["      - paths: [src/sub, src]", "        extensions: [%s]" % ", ".join("'%s'" % e for e in exts2)]
                resources.append({"paths": [["src", "sub"], ["src"]], "exts": exts2})
            elif rng.random() < 0.5:       # a nested path with its own filter, below a listed path with another filter
                ylines += ["      - paths: [src/sub]", "        extensions: [%s]" % ", ".join("'%s'" % e for e in exts2)]
                resources.append({"paths": [["src", "sub"]], "exts": exts2})
            else:       # the same, but the nested entry is inherited: it is the output of a producer p, consumed as p.output (C13)
                ylines = ["targets:", "  p:", "    build: 'true'", "    output:", "      - paths: [src/sub]",
                          "        extensions: [%s]" % ", ".join("'%s'" % e for e in exts2)] + ylines[1:] + ["      - p.output"]
                resources.append({"paths": [["src", "sub"]], "exts": exts2})
                inherited = True
        y = "\n".join(ylines) + "\n"
        ops, mops = [], []
        created = []
        for _ in range(rng.randint(4, 10)):
            d = rng.choice([["src"], ["src", "sub"], ["src", ".zinoma"], ["src", "sub"]])
            n = rng.choice(FILE_NAMES)
            nb = name_bytes(n)
            p = d + [n]
            kindop = rng.choice(["create", "create", "modify", "delete", "rename", "mvdir", "mkzinoma"])
            if kindop == "mkzinoma":
                # zinoma's own work directory appearing below a watched path (first state write of a nested project)
                k2 = len(ops)
                dd = ["src", "sub", "nest%d" % k2]
                ops.append({"op": "mkdir", "path": {"segs": dd}})
                mops.append({"kind": "mkdir", "p": dd, "to": [], "check": False})
                ops.append({"op": "mkdir", "path": {"segs": dd + [".zinoma"]}})
                mops.append({"kind": "mkdir", "p": dd + [".zinoma"], "to": [], "check": True})
                ops.append({"op": "create", "path": {"segs": dd + [".zinoma", "t.checksums"]}})
                mops.append({"kind": "create", "p": dd + [".zinoma", "t.checksums"], "to": [], "check": True})
                continue
            if kindop == "mvdir":
                # a populated directory moved into the watched tree: one event, on the directory
                k2 = len(ops)
                ops.append({"op": "create", "path": {"segs": ["staging", "pkg%d" % k2, "inside.txt"]}})
                mops.append({"kind": "create", "p": ["staging", "pkg%d" % k2, "inside.txt"], "to": [], "check": False})
                ops.append({"op": "rename", "path": {"segs": ["staging", "pkg%d" % k2]}, "to": {"segs": ["src", "pkg%d" % k2]}})
                mops.append({"kind": "mvdir", "p": ["staging", "pkg%d" % k2], "to": ["src", "pkg%d" % k2], "check": exts is None})
                continue
            if kindop in ("delete", "rename", "modify") and not created:
                kindop = "create"
            if kindop == "create":
                ops.append({"op": "create", "path": {"segs": d + [comp_json(nb)]}})
                mops.append({"kind": "create", "p": d + [lossy(nb)], "to": [], "check": True})
                if (d, nb) not in created:
                    created.append((d, nb))
            elif kindop == "modify":
                d2, nb2 = rng.choice(created)
                ops.append({"op": "modify", "path": {"segs": d2 + [comp_json(nb2)]}})
                mops.append({"kind": "modify", "p": d2 + [lossy(nb2)], "to": [], "check": True})
            elif kindop == "delete":
                d2, nb2 = created.pop(rng.randrange(len(created)))
                ops.append({"op": "delete", "path": {"segs": d2 + [comp_json(nb2)]}})
                mops.append({"kind": "delete", "p": d2 + [lossy(nb2)], "to": [], "check": True})
            else:
                d2, nb2 = created.pop(rng.randrange(len(created)))
                n3 = rng.choice([x for x in FILE_NAMES if name_bytes(x) != nb2])
                nb3 = name_bytes(n3)
                d3 = rng.choice([["src"], ["src", "sub"]])
                ops.append({"op": "rename", "path": {"segs": d2 + [comp_json(nb2)]}, "to": {"segs": d3 + [comp_json(nb3)]}})
                mops.append({"kind": "rename", "p": d2 + [lossy(nb2)], "to": d3 + [lossy(nb3)], "check": True})
                if (d3, nb3) not in created:
                    created.append((d3, nb3))
        if exts2 is not None:
            # changes that only ONE of the two entries makes relevant, in each directory the entries list
            def fits(n, ex):
                return any(n.endswith(e if e.startswith(".") else "." + e) for e in ex if e)
            for dd, mine, other in ((resources[1]["paths"][-1], exts2, exts), (["src", "sub"], exts, exts2), (["src"], exts, exts2)):
                pool = [n for n in FILE_NAMES if fits(n, mine) and not fits(n, other) and "~" not in n and ".sw" not in n]
                if pool:
                    n = rng.choice(pool)
                    ops.append({"op": "create", "path": {"segs": dd + [comp_json(name_bytes(n))]}})
                    mops.append({"kind": "create", "p": dd + [lossy(name_bytes(n))], "to": [], "check": True})
        m = {"resources": resources, "ops": mops, "also": ["C15"] + (["C13"] if inherited else [])}      # "watching applies the same rule to the path of each event"
        cases.append({"id": "w%d" % k, "kindcase": "watch", "m": m,
                      "job": {"id": "w%d" % k, "tree": tree, "yaml": y, "requested": ["t"], "sentinel": sent, "ops": ops, "settle_ms": 30}})
    return cases


def hex_to_comps(h, strip):
    b = bytes.fromhex(h)
    comps = [lossy(c) for c in b.split(b"/")]
    return comps[len(strip):] if comps[:len(strip)] == strip else None


def normalise(case, r):
    k = case["kindcase"]
    if k == "watch":
        if "results" not in r:
            return {"results": [{"triggered": False, "alive": False, "cbs": []} for _ in case["m"]["ops"]], "error": r.get("error", "?")}
        # the extension set of the reporting watcher arrives as Rust's Debug text: None | Some({".txt", ".o"})
        out = []
        for x in r["results"]:
            cbs = [{"exts": sorted(re.findall(r'"((?:[^"\\]|\\.)*)"', cb.get("exts", ""))), "paths": cb["paths"]} for cb in x.get("cbs", [])]
            out.append({"triggered": x["triggered"], "alive": x["alive"], "cbs": cbs})
        return {"results": out}
    rr = r.get("r") or {}
    ok = "listed" in rr
    if k == "list":
        listed = []
        if ok:
            for h in (rr["listed"].get("t") or {}).get("input", []):
                c = hex_to_comps(h, ["proj"])
                listed.append(c if c is not None else ["<outside>"] + [lossy(x) for x in bytes.fromhex(h).split(b"/")])
        return {"ok": ok, "listed": listed}
    # clean: removed = real nodes of the tree that are gone
    after = {tuple(lossy(c) for c in bytes.fromhex(n["hex"]).split(b"/")) for n in r.get("after", [])}
    removed = []
    for n in case["m"]["tree"]:
        if ("proj",) + tuple(n["p"]) not in after:
            removed.append(n["p"])
    # anything outside the project that vanished is reported with an <outside> marker (must never happen)
    for extra in (("elsewhere", "d", "x.o"), ("elsewhere", "d", "keep.txt"), ("elsewhere", "d", "z.csv"), ("elsewhere", "d", "sub", "y.o"),
                  ("elsewhere", "d", "sub"), ("elsewhere", "d")):
        if extra not in after:
            removed.append(["<outside>"] + list(extra))
    return {"ok": ok, "removed": removed}


def run_shard(args):
    name, cases, mode = args
    jp = os.path.join(CACHE, "jobs", name + ".json")
    out = os.path.join(CACHE, "jobs", name + ".ndjson")
    got = {}
    todo = list(cases)
    for _attempt in range(30):
        if not todo:
            break
        json.dump({"out": out, "scratch": os.path.join(CACHE, "scratch"), "cases": [c["job"] for c in todo]}, open(jp, "w"))
        rc, o = run(["timeout", "-k", "2", "1500", ZV, mode, jp], timeout=1600)
        if os.path.exists(out):
            for l in open(out, errors="replace"):
                try:
                    r = json.loads(l)
                except ValueError:
                    break
                got[r["id"]] = r
        if rc == 0:
            break
        missing = [k for k, c in enumerate(todo) if c["id"] not in got]
        if not missing:
            break
        todo = todo[missing[0] + 1:]        # the first missing case killed the harness process: it is recorded as a failure
    lines = []
    for c in cases:
        if c["id"] in got:
            ob = normalise(c, got[c["id"]])
        elif c["kindcase"] == "watch":
            ob = {"results": [{"triggered": False, "alive": False, "cbs": []} for _ in c["m"]["ops"]]}
        else:
            ob = {"ok": False, "listed": [], "removed": []}
        lines.append({"id": c["id"], "kindcase": c["kindcase"], "m": c["m"], "obs": ob})
    obs = os.path.join(CACHE, "jobs", name + ".obs.ndjson")
    with open(obs, "w") as f:
        for l in lines:
            f.write(json.dumps(l) + "\n")
    rc2, o2 = tlc("ResourcesObs.tla", "EngineObs.cfg", workers=1, env={"TRACE": obs}, timeout=1200,
                  java_opts="-Xss1g -Xmx3g -Dtlc2.tool.queue.IStateQueue=StateDeque", metaname="robs_" + name)
    viol = []
    for line in o2.splitlines():
        m = VIOL_RE.match(line.strip())
        if m:
            viol.append({"prop": m.group(1), "sig": m.group(3), "line": int(m.group(2))})
    if "TRACE-LINES" not in o2 or "TRACE-NOT-CONSUMED" in o2:
        return {"name": name, "error": "trace validation failed: " + "\n".join(x for x in o2.splitlines() if not TLC_NOISE.match(x))[-2000:]}
    return {"name": name, "lines": lines, "viol": viol, "mode": mode}


def mc(tier):
    out = {}
    spec_h = tree_hash([os.path.join(SPEC, f) for f in ("Resources.tla", "ResourceRules.tla", "Resources.cfg")])
    cp = os.path.join(RESULTS, "mc_resources_%s.json" % spec_h)
    if os.path.exists(cp):
        out["resources"] = json.load(open(cp))
    else:
        t0 = time.time()
        rc, o = tlc("Resources.tla", "Resources.cfg", workers=min(8, NCPU), timeout=1500, metaname="mc_resources")
        st = tlc_stats(o)
        st.update({"name": "resources", "constants": {}, "wall_s": round(time.time() - t0, 1),
                   "invariants": ["Monotone", "NoWorkDir", "CleanWithin", "CleanIsDenoted", "NeverThroughLink", "Idem", "MissingContributesNothing", "SelfOK"]})
        if st["ok"]:
            json.dump(st, open(cp, "w"))
        else:
            st["tail"] = "\n".join(l for l in o.splitlines() if not TLC_NOISE.match(l))[-2500:]
        log("TLC resources: %s distinct=%d %.0fs" % ("ok" if st["ok"] else "FAILED", st["distinct"], st["wall_s"]))
        out["resources"] = st
    # the watcher's algorithm (grouping by extension list, registration, callback filter, capacity-1 notice) against the rule
    consts = {"MaxRes": 2, "MaxEvents": 2 if tier != "thorough" else 3, "DedupAcrossGroups": False}
    invs = ["NoViolation", "GroupingFaithful", "NothingExtra", "NoticeNotLost", "NoSpuriousNotice"]
    wh = tree_hash([os.path.join(SPEC, f) for f in ("Watcher.tla", "ResourceRules.tla")])
    cp = os.path.join(RESULTS, "mc_watcher_%s_%d.json" % (wh, consts["MaxEvents"]))
    if os.path.exists(cp):
        out["watcher"] = json.load(open(cp))
    else:
        t0 = time.time()
        rc, o = tlc("Watcher.tla", write_cfg("Watcher_" + tier, consts, invs, [], "Spec", False), workers=min(8, NCPU), timeout=1500,
                    metaname="mc_watcher")
        st = tlc_stats(o)
        st.update({"name": "watcher", "constants": consts, "wall_s": round(time.time() - t0, 1), "invariants": invs})
        if st["ok"]:
            json.dump(st, open(cp, "w"))
        else:
            st["tail"] = "\n".join(l for l in o.splitlines() if not TLC_NOISE.match(l))[-2500:]
        log("TLC watcher: %s distinct=%d %.0fs" % ("ok" if st["ok"] else "FAILED", st["distinct"], st["wall_s"]))
        out["watcher"] = st
    return out


KIND_OF = {"C12": "clean", "C15": "list", "C16": "watch"}


def suite(tier, seed):
    key = "res_%s_%s_%s_%d" % (repo_hash(), verif_hash(), tier, seed)
    cp = os.path.join(RESULTS, key + ".json")
    if os.path.exists(cp):
        return json.load(open(cp))
    with Lock("res-suite"):
        if os.path.exists(cp):
            return json.load(open(cp))
        t0 = time.time()
        build_harness()
        res = {"engine": "resources", "mc": mc(tier), "tier": tier, "seed": seed, "violations": [], "tool_errors": [], "runs": 0,
               "traces_validated": 0, "samples": [], "nontrivial": {}, "by_kind": {}}
        cases = make_cases(tier, seed)
        wcases = make_watch_cases(tier, seed)
        byid = {c["id"]: c for c in cases + wcases}
        k = NCPU
        tag = "r%s%d_%d" % (tier[0], seed, os.getpid())
        shards = [("%s_%d" % (tag, s), cases[s::k], "res") for s in range(k)]
        # the watcher cases use real inotify and real time: few at a time
        shards += [("%s_w%d" % (tag, s), wcases[s::6], "watch") for s in range(6)]
        with cf.ThreadPoolExecutor(NCPU) as ex:
            rs = list(ex.map(run_shard, shards))
        seen = {p: set() for p in PROPS}
        for r in rs:
            if "error" in r:
                res["tool_errors"].append({"job": r["name"], "what": r["error"]})
                continue
            for ln in r["lines"]:
                c = byid[ln["id"]]
                res["runs"] += 1
                res["traces_validated"] += 1
                res["by_kind"][c["kindcase"]] = res["by_kind"].get(c["kindcase"], 0) + 1
                fp = hashlib.md5(json.dumps(c["m"], sort_keys=True).encode()).hexdigest()
                for p, kd in KIND_OF.items():
                    if c["kindcase"] == kd:
                        seen[p].add(fp)
                if len([s for s in res["samples"] if s["kind"] == c["kindcase"]]) < 1:
                    res["samples"].append({"kind": c["kindcase"], "case": c["m"], "observed": ln["obs"]})
            for v in r["viol"]:
                ln = r["lines"][v["line"] - 1]
                res["violations"].append({"prop": v["prop"], "sig": v["sig"][:600], "group": "resources:" + ln["kindcase"], "case": byid[ln["id"]],
                                          "observed": ln["obs"], "confirmed": False})
        res["nontrivial"] = {p: len(s) for p, s in seen.items()}
        for name, st in res["mc"].items():
            if not st["ok"]:
                res["tool_errors"].append({"job": "tlc:" + name, "what": "lemma checking failed", "tail": st.get("tail", "")})
        res["wall_s"] = round(time.time() - t0, 1)
        if not res["tool_errors"]:
            json.dump(res, open(cp, "w"))
        return res


def replay(pid, path):
    rp = json.load(open(path))
    build_harness()
    c = rp["case"]
    viols = []
    # watcher verdicts rest on real time: a violation must recur in 2 of 3 re-executions
    reps = 3 if c["kindcase"] == "watch" else 1
    hits = 0
    for i in range(reps):
        r = run_shard(("rreplay_%d_%d" % (os.getpid(), i), [c], "watch" if c["kindcase"] == "watch" else "res"))
        if "error" in r:
            raise ToolError(r["error"])
        v = [x for x in r["viol"] if x["prop"] == pid]
        if v:
            hits += 1
            viols = v
    return (viols if hits >= (2 if reps == 3 else 1) else []), "replayed %d/%d" % (hits, reps)


def describe(pid, res):
    st = res["mc"]["resources"]
    # C16 (and the watching clause of C15) also rest on the watcher's design specification
    used = [st] + ([res["mc"]["watcher"]] if pid in ("C16", "C15") and "watcher" in res["mc"] else [])
    cov = {"states": sum(x["distinct"] for x in used), "transitions": sum(x["generated"] for x in used),
           "traces_validated_against_impl": res["traces_validated"],
           "samples": [s for s in res["samples"] if s["kind"] == KIND_OF[pid]][:1] + [{"tlc_configuration": "Resources.cfg",
                       "lemmas": st["invariants"], "distinct_states": st["distinct"]}] +
                      [{"tlc_configuration": "Watcher.tla " + json.dumps(x["constants"]), "invariants": x["invariants"],
                        "distinct_states": x["distinct"]} for x in used[1:]],
           "evaluations": res["by_kind"].get(KIND_OF[pid], 0), "distinct_nontrivial": res["nontrivial"].get(pid, 0),
           "rule": "one evaluation = one generated tree (nested directories, .zinoma at several depths, multi-dot / dot / tilde / swap / "
                   "non-UTF-8 names, links to files and directories inside and outside the project, dangling links) x declaration "
                   "(paths incl. missing and linked ones, extension lists incl. empty entries) materialised on disk and given to "
                   "zinoma's own code; TLC compares with the three-valued rules of ResourceRules.tla; kind for %s: %s" % (pid, KIND_OF[pid]),
           "exhaustive": False, "by_kind": res["by_kind"], "generated_case_use_of_TLC": True}
    assumptions = ["trees are bounded (depth <= 4, <= ~25 nodes) and live on this sandbox's file system only",
                   "where C12/C15 are silent (symbolic links as listed entries, files below a linked listed path, .zinoma above the listed path) "
                   "the oracle accepts either behaviour",
                   "watcher cases depend on real inotify timing: every operation is closed by a sentinel edit; a reported violation must recur in 2 of 3 re-executions"]
    return cov, "model_checking", assumptions
