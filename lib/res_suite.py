"""Resources suite (C12 C15 C16) - under construction."""
PROPS = []
