"""Command-line leg: sequences of invocations of the real binary (unmodified main()) on generated multi-project trees, with full
before/after observation of scripts run, skips, recorded state and outputs; TLC folds them through CliObs.tla (which uses ConfigRules
for names, closure and refusal). Serves the main.rs side of C02 C03 C08 C09 C12 C14 C18 C19."""
import concurrent.futures as cf
import hashlib, json, os, random, re, shutil, subprocess, time

from common import *  # noqa: F403
import cfg_suite

PROPS = ["C02", "C03", "C04", "C08", "C09", "C12", "C14", "C18", "C19", "C20"]
VIOL_RE = re.compile(r'^"?MONITOR-VIOLATION (C\d+) @(\d+) (.*?)"?$')


def cdir(pkey, root):
    """the imported project is a SIBLING of the entry project (imports: {S: ../lib}), not a sub-directory of it"""
    return "app" if pkey == root else "lib"


def render(g, invalid=False):
    root = g["root"]
    files = {}
    for pk in g["pkeys"]:
        d = cdir(pk, root)
        lines = []
        if pk != "_":
            lines.append("name: %s" % pk)
        if pk == root:
            lines.append("imports:\n  S: ../lib")
            if invalid:
                lines.append("bogus_key: 1")
        lines.append("targets:")
        mine = [t for t in g["targets"] if t["proj"] == pk]
        if not mine:
            lines[-1] = "targets: {}"
        for t in mine:
            lines.append("  %s:" % t["name"])
            deps = "[" + ", ".join(cfg_suite.render_ref(r) for r in t["deps"]) + "]"
            if t["kind"] == "a":
                lines.append("    dependencies: %s" % deps)
                continue
            if t["deps"]:
                lines.append("    dependencies: %s" % deps)
            lines.append("    build: 'echo \"%s\" >> \"$ZV_RUNLOG\"; mkdir -p out_%s && echo built > out_%s/f.o'" % (t["id"], t["name"], t["name"]))
            lines.append("    input:")
            lines.append("      - paths: [in_%s]" % t["name"])
            for r in t["outs"]:
                lines.append("      - %s.output" % cfg_suite.render_ref(r))
            if not t.get("noout"):
                lines.append("    output:")
                lines.append("      - paths: [out_%s]\n        extensions: [o]" % t["name"])
        files[cfg_suite.pj(d, "zinoma.yml")] = "\n".join(lines) + "\n"
    return files


def gen_project(rng, k):
    root = rng.choice(["_", "R"])
    # names in a prefix relation on purpose (state files are named after targets)
    universe = [(root, "a"), (root, "a-b"), (root, "c"), ("S", "a"), ("S", "a-b")]
    chosen = [u for u in universe if rng.random() < 0.8] or [universe[0]]
    ts = []
    ids = [p + "::" + n for p, n in chosen]
    for idx, (p, nm) in enumerate(chosen):
        kind = rng.choice("bbba")
        # acyclic by construction: references only to targets later in the list (plus occasional bare/qualified spelling)
        later = chosen[idx + 1:]
        deps, outs = [], []
        for (p2, n2) in later:
            if rng.random() < 0.35:
                q = "" if p2 == p else p2
                if q == "_":
                    continue          # the unnamed root cannot be referenced from another project
                if p2 == p and p != "_" and rng.random() < 0.3:
                    q = p
                (outs if (kind != "a" and rng.random() < 0.4) else deps).append({"q": q, "n": n2})
        ts.append({"proj": p, "name": nm, "kind": kind, "deps": deps, "outs": outs, "noout": kind == "b" and rng.random() < 0.3})
    # X.output of an aggregate is invalid: turn such producers into builds
    byid = {t["proj"] + "::" + t["name"]: t for t in ts}
    for t in ts:
        for r in t["outs"]:
            tid = (t["proj"] if r["q"] == "" else r["q"]) + "::" + r["n"]
            if tid in byid:
                byid[tid]["kind"] = "b"
    g = cfg_suite.make_graph(root, ts, [])
    return g


def cli_names(g):
    out = []
    for t in g["targets"]:
        disp = t["name"] if t["proj"] == "_" else t["id"]
        out.append(disp)
        if t["proj"] == g["root"] and t["proj"] != "_":
            out.append(t["name"])
    return out


def break_graph(rng, g):
    g2 = json.loads(json.dumps(g))
    t = rng.choice(g2["targets"])
    how = rng.choice(["unknown_target", "unknown_project", "self_cycle", "output_of_aggregate"])
    if how == "unknown_target":
        t["deps"].append({"q": "", "n": "zz"})
    elif how == "unknown_project":
        t["deps"].append({"q": "Q", "n": "a"})
    elif how == "self_cycle":
        t["deps"].append({"q": "", "n": t["name"]})
    else:
        aggs = [x for x in g2["targets"] if x["kind"] == "a" and x["proj"] == t["proj"] and x is not t]
        if aggs and t["kind"] != "a":
            t["outs"].append({"q": "", "n": aggs[0]["name"]})
        else:
            t["deps"].append({"q": "", "n": "zz"})
    return g2


def gen_history(rng, k):
    g = gen_project(rng, k)
    names = cli_names(g)
    steps = []
    for _ in range(rng.randint(5, 9)):
        r = rng.random()
        req = rng.sample(names, min(len(names), rng.choice([1, 1, 2, 3])))
        if rng.random() < 0.25:
            req = req + [rng.choice(req)]          # the same target named twice (or under both spellings) on one command line
            rng.shuffle(req)
        if r < 0.45:
            steps.append({"graph": g, "req": req, "clean": False, "invalid": False, "edit": []})
        elif r < 0.55:
            steps.append({"graph": g, "req": req, "clean": True, "invalid": False, "edit": []})
        elif r < 0.62:
            steps.append({"graph": g, "req": [], "clean": True, "invalid": False, "edit": []})
        elif r < 0.75:
            nonagg = [t["id"] for t in g["targets"] if t["kind"] != "a"]
            ed = rng.sample(nonagg, min(len(nonagg), 1)) if nonagg else []
            steps.append({"graph": g, "req": req, "clean": False, "invalid": False, "edit": ed})
        elif r < 0.9:
            gb = break_graph(rng, g)
            steps.append({"graph": gb, "req": rng.choice([req, []]), "clean": rng.random() < 0.7, "invalid": False, "edit": []})
        elif r < 0.95:
            steps.append({"graph": g, "req": rng.choice([req, []]), "clean": rng.random() < 0.7, "invalid": True, "edit": []})
        else:
            steps.append({"graph": g, "req": req + [rng.choice(["nope", "S::zz", "Q::a"])], "clean": rng.random() < 0.5, "invalid": False, "edit": []})
    return {"id": "p%d" % k, "graph": g, "steps": steps}


def gen_wide_history(rng, k, width=10):
    """many independent targets of one project, each over a few hundred input files, requested together: they check, record
    and finish at the same moment (concurrent state writes in one .zinoma directory); afterwards everything must be skipped"""
    root = rng.choice(["_", "R"])
    ts = [{"proj": root, "name": "w%d" % i, "kind": "b", "deps": [], "outs": [], "noout": i % 3 == 0} for i in range(width)]
    g = cfg_suite.make_graph(root, ts, [])
    names = [t["name"] for t in ts]
    steps = [{"graph": g, "req": names, "clean": False, "invalid": False, "edit": []} for _ in range(3)]
    steps.append({"graph": g, "req": names, "clean": True, "invalid": False, "edit": []})
    steps.append({"graph": g, "req": list(reversed(names)), "clean": False, "invalid": False, "edit": []})
    return {"id": "w%d" % k, "graph": g, "steps": steps, "wide": 250}


def tdir(root_dir, g, t):
    return os.path.join(root_dir, cdir(t["proj"], g["root"]))


def observe(root_dir, g):
    state, out = [], []
    for t in g["targets"]:
        d = tdir(root_dir, g, t)
        disp = t["name"] if t["proj"] == "_" else t["id"]
        if os.path.exists(os.path.join(d, ".zinoma", disp + ".checksums")):
            state.append(t["id"])
        if not t.get("noout") and os.path.exists(os.path.join(d, "out_" + t["name"], "f.o")):
            out.append(t["id"])
    return sorted(state), sorted(out)


def run_history(h):
    import bb
    d = os.path.join(CACHE, "scratch", "cli_%d_%s" % (os.getpid(), h["id"]))
    shutil.rmtree(d, ignore_errors=True)
    os.makedirs(os.path.join(d, "app"))
    os.makedirs(os.path.join(d, "lib"))
    g0 = h["graph"]
    for t in g0["targets"]:
        p = os.path.join(tdir(d, g0, t), "in_" + t["name"])
        if h.get("wide"):
            os.makedirs(p)
            for j in range(h["wide"]):
                open(os.path.join(p, "f%d.txt" % j), "w").write("%s %d\n" % (t["name"], j))
        else:
            open(p, "w").write("v0\n")
    lines = [{"e": "proj", "id": h["id"]}]
    ver = 0
    for i, s in enumerate(h["steps"]):
        g = s["graph"]
        for p, text in render(g, invalid=s["invalid"]).items():
            open(os.path.join(d, p), "w").write(text)
        for tid in s["edit"]:
            t = [x for x in g["targets"] if x["id"] == tid][0]
            ver += 1
            open(os.path.join(tdir(d, g, t), "in_" + t["name"]), "w").write("v%d\n" % ver)
        sb, ob = observe(d, g0)
        runlog = os.path.join(d, "run.log")
        if os.path.exists(runlog):
            os.unlink(runlog)
        args = (["--clean"] if s["clean"] else []) + s["req"]
        if not args:
            args = ["--clean"]
        r = bb.run_zinoma(os.path.join(d, "app"), args, os.path.join(d, "trace.ndjson"), timeout=30, env={"ZV_RUNLOG": runlog})
        if os.path.exists(os.path.join(d, "trace.ndjson")):
            os.unlink(os.path.join(d, "trace.ndjson"))
        ran = [l.strip() for l in open(runlog)] if os.path.exists(runlog) else []
        byname = {}
        for t in g["targets"]:
            byname[t["name"] if t["proj"] == "_" else t["id"]] = t["id"]
        skipped = [byname.get(m.group(1), m.group(1)) for m in re.finditer(r"INFO (\S+) - Build skipped", r["err"])]
        sa, oa = observe(d, g0)
        gm = {"root": g["root"], "pkeys": g["pkeys"], "targets": [{k: t[k] for k in ("id", "proj", "name", "kind", "deps", "outs")} for t in g["targets"]]}
        lines.append({"e": "inv", "id": "%s.%d" % (h["id"], i),
                      "m": {"graph": gm, "req": s["req"], "clean": bool(s["clean"] or not s["req"]), "invalid": s["invalid"], "edited": s["edit"],
                            "withInput": [t["id"] for t in g["targets"] if t["kind"] != "a"]},
                      "obs": {"status": 0 if r["status"] == 0 else (2 if r["timed_out"] else 1), "ran": ran, "skipped": skipped,
                              "stateBefore": sb, "stateAfter": sa, "outBefore": ob, "outAfter": oa,
                              "panic": "panicked" in r["err"] or (r["status"] is not None and r["status"] < 0)},
                      "dbg": r["err"][-300:]})
    shutil.rmtree(d, ignore_errors=True)
    return lines


def validate(name, lines):
    obs = os.path.join(CACHE, "jobs", name + ".obs.ndjson")
    with open(obs, "w") as f:
        for l in lines:
            f.write(json.dumps(l) + "\n")
    rc, o = tlc("CliObs.tla", "EngineObs.cfg", workers=1, env={"TRACE": obs}, timeout=1200,
                java_opts="-Xss1g -Xmx3g -Dtlc2.tool.queue.IStateQueue=StateDeque", metaname="cli_" + name)
    viol = []
    for line in o.splitlines():
        m = VIOL_RE.match(line.strip())
        if m:
            viol.append({"prop": m.group(1), "sig": m.group(3), "line": int(m.group(2))})
    if "TRACE-LINES" not in o or "TRACE-NOT-CONSUMED" in o:
        raise ToolError("CliObs validation failed: " + "\n".join(x for x in o.splitlines() if not TLC_NOISE.match(x))[-2000:])
    return viol


def mc(tier):
    spec_h = tree_hash([os.path.join(SPEC, f) for f in ("Cli.tla", "ConfigRules.tla")])
    mt = 3 if tier == "thorough" else 2
    cp = os.path.join(RESULTS, "mc_cli%d_%s.json" % (mt, spec_h))
    if os.path.exists(cp):
        return json.load(open(cp))
    invs = ["RefusedTouchesNothing", "OutsideUntouched", "CleanNeverSkips", "CleanAlone", "ExactlyOnce"]
    cfg = write_cfg("Cli_%d" % mt, {"MaxTargets": mt}, invs, [], "Spec", False)
    t0 = time.time()
    rc, o = tlc("Cli.tla", cfg, workers=min(8, NCPU), timeout=3000, metaname="mc_cli")
    st = tlc_stats(o)
    st.update({"name": "cli%d" % mt, "invariants": invs, "wall_s": round(time.time() - t0, 1)})
    if st["ok"]:
        json.dump(st, open(cp, "w"))
    else:
        st["tail"] = "\n".join(l for l in o.splitlines() if not TLC_NOISE.match(l))[-2000:]
    log("TLC Cli.tla: %s distinct=%d %.0fs" % ("ok" if st["ok"] else "FAILED", st["distinct"], st["wall_s"]))
    return st


def suite(tier, seed):
    key = "cli_%s_%s_%s_%d" % (repo_hash(), verif_hash(), tier, seed)
    cp = os.path.join(RESULTS, key + ".json")
    if os.path.exists(cp):
        return json.load(open(cp))
    with Lock("cli-suite"):
        if os.path.exists(cp):
            return json.load(open(cp))
        t0 = time.time()
        build_traced()
        rng = random.Random(seed * 23 + 11)
        hs = [gen_history(rng, k) for k in range(120 if tier != "thorough" else 1500)]
        hs += [gen_wide_history(rng, k) for k in range(3 if tier != "thorough" else 20)]
        with cf.ThreadPoolExecutor(NCPU) as ex:
            all_lines = list(ex.map(run_history, hs))
        res = {"violations": [], "tool_errors": [], "histories": len(hs), "invocations": sum(len(x) - 1 for x in all_lines), "samples": [],
               "mc": mc(tier)}
        if not res["mc"]["ok"]:
            res["tool_errors"].append({"job": "tlc:Cli.tla", "what": "model checking failed", "tail": res["mc"].get("tail", "")})
        k = NCPU
        for s in range(k):
            part = [x for x in all_lines[s::k]]
            hpart = hs[s::k]
            flat = [l for x in part for l in x]
            if not flat:
                continue
            try:
                viol = validate("cli%s%d_%d_%d" % (tier[0], seed, os.getpid(), s), flat)
            except ToolError as e:
                res["tool_errors"].append({"job": "cli", "what": str(e)})
                continue
            starts = [i + 1 for i, l in enumerate(flat) if l["e"] == "proj"]
            for v in viol:
                hi = max(j for j, st in enumerate(starts) if st <= v["line"])
                res["violations"].append({"prop": v["prop"], "sig": v["sig"][:500], "group": "cli", "case": hpart[hi],
                                          "observed": flat[v["line"] - 1]["obs"], "confirmed": True})
        if all_lines:
            res["samples"].append([dict(l.get("m", {}), obs=l.get("obs")) for l in all_lines[0][1:3]])
        res["wall_s"] = round(time.time() - t0, 1)
        if not res["tool_errors"]:
            json.dump(res, open(cp, "w"))
        return res


def replay_case(pid, case):
    build_traced()
    lines = run_history(case)
    viol = validate("clireplay_%d" % os.getpid(), lines)
    return [v for v in viol if v["prop"] == pid]
