"""Engine suite (properties C01 C04 C06 C07 C08 C10 C11 C17 C20).
 1. TLC model-checks Engine.tla (the design) on the tier's configurations;
 2. the zv harness executes the real engine under controlled schedules (random policies, DFS, replayed
    TLC behaviours) over the same configuration space;
 3. every recorded execution is projected (tools/project.py) and validated by TLC against EngineObs.tla
    (verdict) and against Trace_Engine.tla (conformance to the design, "drift");
 4. violations are re-executed from their replay file before they are reported.
Results are cached by (hash of /repo sources, hash of /verif machinery, tier, seed)."""
import concurrent.futures as cf
import hashlib, json, os, random, re, sys, time

sys.path.insert(0, os.path.join(os.path.dirname(os.path.abspath(__file__)), "..", "tools"))
import gen_configs, project  # noqa: E402
from common import *  # noqa: E402,F403

ENGINE_PROPS = ["C01", "C04", "C06", "C07", "C08", "C10", "C11", "C17", "C20"]

BASE = {"N": 3, "Watch": False, "MaxChanges": 0, "Failures": False, "Slow": False, "Signals": False, "Skips": False,
        "Inherit": False, "CapChan": 0, "CapInbox": 0, "AckLate": True, "RecordBefore": True, "StrictStart": False, "Unrequests": False}
SAFETY = ["TypeOK", "NoStepViolation", "OnceOnly", "ExitComplete", "ExitStatusRight", "KeepAlive",
          "ServiceUpForDependents", "SingleInstance", "CleanExit", "UpToDate"]


def mc_configs(tier):
    """(name, constants, invariants, temporal properties, SPECIFICATION, deadlock check, properties served)"""
    c = []
    c.append(("once3", dict(BASE), SAFETY, [], "Spec", True, ["C01", "C04", "C08", "C11", "C20"]))
    c.append(("once2_all", dict(BASE, N=2, Failures=True, Signals=True, Skips=True), SAFETY, [], "Spec", True,
              ["C01", "C04", "C07", "C08", "C10", "C11", "C20"]))
    c.append(("once2_live", dict(BASE, N=2, Failures=True, Skips=True), [], ["Terminates"], "FairSpec", False, ["C04"]))
    c.append(("sig2_live", dict(BASE, N=2, Signals=True, Slow=True), [], ["SignalLeadsToExit"], "FairSpecNoScripts",
              False, ["C10"]))
    c.append(("slow2_live", dict(BASE, N=2, Slow=True), [], ["Independent"], "FairSpec", False, ["C17"]))
    c.append(("watch2", dict(BASE, N=2, Watch=True, MaxChanges=2, Inherit=True), SAFETY, [], "Spec", False, ["C01", "C06"]))
    c.append(("cap2", dict(BASE, N=2, CapInbox=1), SAFETY, [], "Spec", True, ["C04", "C10"]))
    c.append(("watch2_fail", dict(BASE, N=2, Watch=True, MaxChanges=1, Inherit=True, Failures=True), SAFETY, [], "Spec", False, ["C06", "C07", "C01"]))
    if tier == "thorough":
        c.append(("once3_fail", dict(BASE, Failures=True), SAFETY, [], "Spec", True, ["C07", "C01", "C04"]))
        c.append(("once3_skip", dict(BASE, Skips=True), SAFETY, [], "Spec", True, ["C01", "C08"]))
        c.append(("once3_sig", dict(BASE, Signals=True), SAFETY, [], "Spec", True, ["C10", "C11"]))
        c.append(("once3_live", dict(BASE), [], ["Terminates"], "FairSpec", False, ["C04"]))
        c.append(("watch2_fail2", dict(BASE, N=2, Watch=True, MaxChanges=2, Inherit=True, Failures=True), SAFETY, [], "Spec", False, ["C06", "C01", "C07"]))
        c.append(("watch2_live", dict(BASE, N=2, Watch=True, MaxChanges=2, Inherit=True), [], ["Converges"], "FairSpec",
                  False, ["C06"]))
        c.append(("cap3", dict(BASE, CapInbox=1), SAFETY, [], "Spec", True, ["C04", "C10"]))
        c.append(("slow3_live", dict(BASE, Slow=True), [], ["Independent"], "FairSpec", False, ["C17"]))
    return c


def run_mc(tier):
    spec_h = tree_hash([os.path.join(SPEC, "Engine.tla"), os.path.join(SPEC, "MC_Engine.tla")])
    out = {}
    for name, consts, invs, props, spec, deadlock, served in mc_configs(tier):
        key = hashlib.sha256(json.dumps([spec_h, name, consts, invs, props, spec, deadlock], sort_keys=True).encode()).hexdigest()[:16]
        cp = os.path.join(RESULTS, "mc_%s_%s.json" % (name, key))
        if os.path.exists(cp):
            out[name] = json.load(open(cp))
            continue
        cfg = write_cfg("Engine_" + name, consts, invs, props, spec, deadlock)
        t0 = time.time()
        rc, o = tlc("MC_Engine.tla", cfg, workers=min(12, NCPU), timeout=5400 if tier == "thorough" else 1500,
                    metaname="mc_" + name)
        st = tlc_stats(o)
        st.update({"name": name, "constants": consts, "invariants": invs, "properties": props, "wall_s": round(time.time() - t0, 1),
                   "serves": served, "rc": rc})
        if not st["ok"]:
            st["tail"] = "\n".join(l for l in o.splitlines() if not TLC_NOISE.match(l))[-3000:]
        else:
            json.dump(st, open(cp, "w"))
        log("TLC %s: %s distinct=%d %.0fs" % (name, "ok" if st["ok"] else "FAILED", st["distinct"], st["wall_s"]))
        out[name] = st
    return out


# ---------------------------------------------------------------------------------------------- harness jobs

def make_jobs(tier, seed):
    rng = random.Random(seed)
    quick = tier != "thorough"
    groups = []  # (label, job dict without out/scratch/configs, configs)
    pol = ["uniform", "messages_first", "completions_first"]
    i = [0]

    def fin(c, **kw):
        i[0] += 1
        return gen_configs.finish(c, i[0], rng=rng, **kw)

    all3 = gen_configs.all_configs(3) + gen_configs.all_configs(2) + gen_configs.all_configs(1)
    groups.append(("n3_plain", {"mode": "random", "runs_per_config": 2 if quick else 6, "policies": pol},
                   [fin(c) for c in all3]))
    sample = all3 if not quick else rng.sample(all3, 500)
    groups.append(("n3_fail_rec", {"mode": "random", "runs_per_config": 2 if quick else 5, "policies": pol},
                   [fin(c, rec=True, inherit=True, fail=True) for c in sample]))
    groups.append(("n3_signal", {"mode": "random", "runs_per_config": 2 if quick else 4, "policies": pol, "signals": True},
                   [fin(c, rec=True, fail=True, slow=True) for c in (rng.sample(all3, 300) if quick else all3)]))
    # never-finishing scripts: every configuration, each build in turn being the slow one (C17: nothing else may wait for it)
    slowcfgs = []
    for c in all3:
        builds = [t for t in range(1, c["n"] + 1) if c["kind"][t - 1] == "b"]
        nonagg = [t for t in range(1, c["n"] + 1) if c["kind"][t - 1] != "a"]
        if len(nonagg) >= 2:
            for b in builds:
                slowcfgs.append(dict(c, slow=[b]))
    groups.append(("n3_slow", {"mode": "random", "runs_per_config": 1 if quick else 3, "policies": pol},
                   [fin(c) for c in (rng.sample(slowcfgs, min(len(slowcfgs), 1500)) if quick else slowcfgs)]))
    wsample = [dict(c, watch=True) for c in (rng.sample(all3, 400) if quick else all3)]
    groups.append(("n3_watch", {"mode": "random", "runs_per_config": 2 if quick else 5, "max_changes": 2,
                                "policies": pol + ["edits_first"], "max_steps": 120},
                   [fin(c, rec=True, inherit=True) for c in wsample]))
    # failures in watch mode, run to quiescence (no signal): a failure must not swallow a change made during the failing build
    groups.append(("n3_watch_fail", {"mode": "random", "runs_per_config": 2 if quick else 4, "max_changes": 2,
                                     "policies": pol + ["edits_first", "failures_first"], "max_steps": 150},
                   [fin(c, rec=True, inherit=True, fail=True) for c in (rng.sample(wsample, 300) if quick else wsample)]))
    groups.append(("n3_watch_fail_sig", {"mode": "random", "runs_per_config": 1 if quick else 2, "max_changes": 2,
                                         "policies": pol + ["edits_first"], "max_steps": 120, "signals": True},
                   [fin(c, rec=True, inherit=True, fail=True) for c in (rng.sample(wsample, 100) if quick else wsample)]))
    fams = gen_configs.families()
    groups.append(("families", {"mode": "random", "runs_per_config": 20 if quick else 200, "policies": pol},
                   [fin(c, inherit=True) for c in fams]))
    groups.append(("families_fail", {"mode": "random", "runs_per_config": 10 if quick else 100, "policies": pol, "signals": True},
                   [fin(c, inherit=True, fail=True, rec=True) for c in fams]))
    groups.append(("families_watch", {"mode": "random", "runs_per_config": 10 if quick else 100, "max_changes": 3,
                                      "policies": pol + ["edits_first"], "max_steps": 200},
                   [fin(dict(c, watch=True), inherit=True, rec=True) for c in fams]))
    groups.append(("families_watch_fail", {"mode": "random", "runs_per_config": 10 if quick else 60, "max_changes": 3,
                                           "policies": pol + ["edits_first", "failures_first"], "max_steps": 200},
                   [fin(dict(c, watch=True), inherit=True, rec=True, fail=True) for c in fams]))
    # overlapping notices of both kinds through one aggregate (a rare order: many runs of the two graphs that allow it)
    mixed = [c for c in fams if c["family"].startswith("mixed_agg")]
    groups.append(("mixed_agg_watch", {"mode": "random", "runs_per_config": 300 if quick else 3000, "max_changes": 3,
                                       "policies": ["edits_first", "uniform", "completions_first"], "max_steps": 250},
                   [fin(dict(c, watch=True), inherit=True, rec=True) for c in mixed] +
                   # ... and directed: only the two builds below the aggregate are edited
                   [dict(fin(dict(c, watch=True), inherit=True, rec=True), edit_only=[1, 3]) for c in mixed]))
    fslow = [dict(c, slow=[b]) for c in fams for b in range(1, c["n"] + 1) if c["kind"][b - 1] == "b"]
    groups.append(("families_slow", {"mode": "random", "runs_per_config": 4 if quick else 40, "policies": pol}, [fin(c) for c in fslow]))
    groups.append(("families_dfs", {"mode": "dfs", "dfs_budget": 60 if quick else 1500},
                   [fin(c) for c in fams]))
    small = [c for c in gen_configs.all_configs(2)] + rng.sample(gen_configs.all_configs(3), 40 if quick else 400)
    groups.append(("small_dfs", {"mode": "dfs", "dfs_budget": 40 if quick else 150}, [fin(c) for c in small]))
    groups.append(("small_dfs_watch", {"mode": "dfs", "dfs_budget": 60 if quick else 300, "max_changes": 1, "max_steps": 60},
                   [fin(dict(c, watch=True), inherit=True) for c in rng.sample(small, 20 if quick else 120)]))
    # held phases of incremental::run: termination, failures, edits and messages land between check, script and record
    def gated(c, watch):
        c = dict(c, watch=watch)
        builds = [t for t in range(1, c["n"] + 1) if c["kind"][t - 1] == "b"]
        pts = ["incr_checked", "incr_script_done", "incr_computed"]
        c["gates"] = [[rng.choice(pts), t] for t in builds if rng.random() < 0.7]
        return c
    gs = [c for c in all3 if "b" in c["kind"]]
    groups.append(("n3_gated", {"mode": "random", "runs_per_config": 3 if quick else 6, "policies": pol + ["failures_first"], "signals": True},
                   [fin(gated(c, False), rec=True, fail=True) for c in (rng.sample(gs, 400) if quick else gs)]))
    groups.append(("n3_gated_watch", {"mode": "random", "runs_per_config": 2 if quick else 5, "max_changes": 2,
                                      "policies": pol + ["edits_first"], "max_steps": 150},
                   [fin(gated(c, True), rec=True, inherit=True) for c in (rng.sample(gs, 400) if quick else gs)]))
    groups.append(("families_gated", {"mode": "random", "runs_per_config": 12 if quick else 100, "policies": pol + ["failures_first"], "signals": True,
                                      "max_changes": 2},
                   [fin(gated(c, k % 2 == 1), rec=True, inherit=True, fail=(k % 4 < 2)) for k, c in enumerate(fams * 2)]))
    # free-running (nothing steered, real thread scheduling; the only mode in which a send can block): default capacities
    # and the capacity-1 build of the harness
    freec = rng.sample(all3, 250 if quick else 1500) + fams * (3 if quick else 20)
    groups.append(("free", {"mode": "free", "runs_per_config": 2 if quick else 4, "signals": True},
                   [fin(c, rec=True, inherit=True, fail=(k % 4 == 0), slow=(k % 5 == 0)) for k, c in enumerate(freec)]))
    groups.append(("free_cap1", {"mode": "free", "runs_per_config": 2 if quick else 4, "signals": True},
                   [fin(c, rec=True, inherit=True, fail=(k % 4 == 1), slow=(k % 5 == 1)) for k, c in enumerate(freec)]))
    big = [gen_configs.random_config(rng, rng.randint(4, 7)) for _ in range(150 if quick else 2000)]
    groups.append(("random_big", {"mode": "random", "runs_per_config": 2 if quick else 4, "policies": pol},
                   [fin(c, inherit=True, rec=True, fail=(k % 3 == 0)) for k, c in enumerate(big)]))
    return groups


def tlc_behaviours(tier, seed):
    """spec -> implementation: behaviours of Engine.tla generated by TLC in simulation mode (Gen_Engine.tla), to be replayed
    step by step into the real engine. Every build is held at incr_checked and incr_script_done so that the harness can
    reproduce the order in which the behaviour lets the phases of incremental::run proceed."""
    quick = tier != "thorough"
    cfgs = []
    variants = [("once", dict(BASE, Failures=True, Skips=True, Inherit=True), 300 if quick else 6000),
                ("once_sig", dict(BASE, Failures=True, Skips=True, Signals=True), 150 if quick else 3000),
                ("watch", dict(BASE, Watch=True, MaxChanges=3, Skips=True, Inherit=True), 200 if quick else 4000),
                ("watch_sig", dict(BASE, Watch=True, MaxChanges=2, Signals=True, Failures=True), 100 if quick else 2000)]
    k = 0
    for name, consts, num in variants:
        cfg = write_cfg("Gen_" + name, consts, [], [], "GSpec", False)
        rc, out = tlc("Gen_Engine.tla", cfg, workers=1, timeout=900, extra=["-simulate", "num=%d" % num, "-depth", "300", "-seed", str(seed)],
                      metaname="gen_" + name)
        for line in out.splitlines():
            line = line.strip()
            if line.startswith('"BEHAVIOUR '):
                b = json.loads(json.loads(line)[len("BEHAVIOUR "):])
                k += 1
                n = b["n"]
                builds = [t for t in range(1, n + 1) if b["kind"][t - 1] == "b"]
                cfgs.append({"id": "g%d" % k, "n": n, "kind": b["kind"], "deps": b["deps"], "roots": b["roots"], "watch": b["watch"],
                             "may_fail": [t for t in range(1, n + 1) if b["kind"][t - 1] != "a"], "slow": b["slow"], "rec": b["rec"],
                             "inh": b["inh"], "svc_fail": [], "gates": [[p, t] for t in builds for p in ("incr_checked", "incr_script_done")],
                             "schedule": b["hist"], "strict": False, "expected_final": b["final"]})
    return cfgs


def shard(groups, nshards, seed, tag):
    """split every group's configurations over the shards so that each shard is one zv process per group"""
    jobs = []
    for label, params, cfgs in groups:
        k = max(1, min(nshards, len(cfgs) // 8 or 1))
        for s in range(k):
            part = cfgs[s::k]
            if not part:
                continue
            name = "%s_%s_%d" % (tag, label, s)
            job = dict(params)
            job.update({"out": os.path.join(CACHE, "jobs", name + ".ndjson"), "scratch": os.path.join(CACHE, "scratch"),
                        "seed": seed * 1000 + s, "configs": part})
            jp = os.path.join(CACHE, "jobs", name + ".json")
            json.dump(job, open(jp, "w"))
            jobs.append((label, name, jp, job))
    return jobs


def run_zv(jobtuple):
    label, name, jp, job = jobtuple
    rc, out = run(["timeout", "-k", "2", "1800", ZV_CAP1 if label.endswith("_cap1") else ZV, "engine", jp], timeout=1900)
    summary = None
    sp = job["out"] + ".summary.json"
    if os.path.exists(sp):
        try:
            summary = json.load(open(sp))
        except ValueError:
            summary = None
        os.unlink(sp)
    return {"label": label, "name": name, "rc": rc, "summary": summary, "tail": out[-2000:] if summary is None else ""}


VIOL_RE = re.compile(r'^"?MONITOR-VIOLATION (C\d+) @(\d+) (.*?)"?$')


def validate_obs(name):
    """project the raw log of one shard and let TLC fold it through EngineObs"""
    raw = os.path.join(CACHE, "jobs", name + ".ndjson")
    obs = os.path.join(CACHE, "jobs", name + ".obs.ndjson")
    evs = project.project(open(raw))
    starts = []
    with open(obs, "w") as f:
        for k, e in enumerate(evs):
            if e["e"] == "cfg":
                starts.append(k + 1)
            f.write(json.dumps(e) + "\n")
    if not evs:
        return {"name": name, "lines": 0, "viol": [], "ok": True, "starts": starts, "evs": evs}
    rc, out = tlc("EngineObs.tla", "EngineObs.cfg", workers=1, env={"TRACE": obs}, timeout=1200,
                  java_opts="-Xss1g -Xmx3g -Dtlc2.tool.queue.IStateQueue=StateDeque", metaname="obs_" + name)
    viol = []
    for line in out.splitlines():
        m = VIOL_RE.match(line.strip())
        if m:
            viol.append({"prop": m.group(1), "sig": m.group(3), "line": int(m.group(2))})
    consumed = ("TRACE-LINES" in out) and ("TRACE-NOT-CONSUMED" not in out)
    ok = consumed and (rc == 0 or viol)
    return {"name": name, "lines": len(evs), "viol": viol, "ok": bool(ok), "starts": starts, "evs": evs,
            "tail": "" if ok else "\n".join(l for l in out.splitlines() if not TLC_NOISE.match(l))[-2500:]}


DRIFT_RE = re.compile(r'^"?DRIFT @(\d+) (.*?)"?$')


def validate_conf(name):
    """conformance of every recorded harness run to Engine.tla itself (Trace_Engine.tla): each logged step must be the named
    action, enabled, with the logged post-state. A run the specification cannot follow is 'drift' (reported, not a verdict)."""
    raw = os.path.join(CACHE, "jobs", name + ".ndjson")
    runs = project.project_d(open(raw))
    if name.endswith("_realbin"):
        # free-running binary: one-shot runs only (real inotify delivers several notifications per edit, which the
        # version abstraction of Engine.tla cannot be told about from outside)
        runs = [r for r in runs if not r[0]["cfg"]["watch"]]
    res = {"name": name, "runs": 0, "lines": 0, "drift": [], "error": None}
    for watch in (False, True):
        part = [r for r in runs if bool(r[0]["cfg"]["watch"]) == watch]
        for attempt in range(4):
            if not part:
                break
            dp = os.path.join(CACHE, "jobs", "%s.d%d.ndjson" % (name, int(watch)))
            starts, n = [], 0
            with open(dp, "w") as f:
                for r in part:
                    starts.append(n + 1)
                    for e in r:
                        f.write(json.dumps(e) + "\n")
                        n += 1
            rc, out = tlc("Trace_Engine.tla", "Trace_Engine_%s.cfg" % ("watch" if watch else "once"), workers=1, env={"TRACE": dp},
                          timeout=1500, java_opts="-Xss1g -Xmx3g -Dtlc2.tool.queue.IStateQueue=StateDeque", metaname="conf_%s_%d" % (name, int(watch)))
            m = None
            for line in out.splitlines():
                m = DRIFT_RE.match(line.strip()) or m
            if "TRACE-LINES" in out and "is violated" not in out:
                res["runs"] += len(part)
                res["lines"] += n
                break
            if m:
                at = int(m.group(1))
                k = max(j for j, st_ in enumerate(starts) if st_ <= at)
                res["drift"].append({"cfg": part[k][0]["cfg"], "line": at - starts[k], "event": m.group(2)[:300], "watch": watch})
                res["runs"] += k
                res["lines"] += starts[k] - 1
                part = part[k + 1:]
                continue
            if "is violated" in out:
                inv = re.search(r"Invariant (\w+) is violated", out)
                res["drift"].append({"invariant": inv.group(1) if inv else "?", "watch": watch,
                                     "tail": "\n".join(l for l in out.splitlines() if not TLC_NOISE.match(l))[-600:]})
                break
            res["error"] = "\n".join(l for l in out.splitlines() if not TLC_NOISE.match(l))[-1500:]
            break
    return res


def run_index(starts, line):
    k = 0
    for j, s in enumerate(starts):
        if s <= line:
            k = j
    return k


NONTRIVIAL = {
    "C01": lambda c, ev: any(e["e"] in ("start", "svcstart") and c["deps"][e["t"] - 1] for e in ev),
    "C04": lambda c, ev: not c["watch"] and any(e["e"] == "exit" for e in ev) and len(ev) > 12,
    "C06": lambda c, ev: c["watch"] and any(e["e"] == "edit" for e in ev),
    "C07": lambda c, ev: any(e["e"] == "result" and e["res"] == "failed" or e["e"] == "svcfail" for e in ev),
    "C08": lambda c, ev: (len(c["roots"]) > len(set(c["roots"])) or
                          any(sum(1 for d in c["deps"] if t in d) >= 2 for t in range(1, c["n"] + 1))),
    "C10": lambda c, ev: any(e["e"] == "signal" for e in ev) or any(e["e"] == "rooterr" for e in ev),
    "C11": lambda c, ev: any(e["e"] == "svcstart" for e in ev),
    "C17": lambda c, ev: bool(c.get("slow")) and any(e["e"] == "start" for e in ev),
    "C20": lambda c, ev: any(c["kind"][r - 1] == "a" for r in c["roots"]),
}


def suite(tier, seed):
    key = "engine_%s_%s_%s_%d" % (repo_hash(), verif_hash(), tier, seed)
    cp = os.path.join(RESULTS, key + ".json")
    if os.path.exists(cp):
        log("engine suite: cached result", key)
        return json.load(open(cp))
    with Lock("engine-suite"):
        if os.path.exists(cp):
            return json.load(open(cp))
        t0 = time.time()
        harness_ok = True
        try:
            build_harness()
            build_harness(cap=1)
        except ToolError as e:
            # an API-changing edit of /repo can break the in-crate harness; the unmodified main() is still judged through
            # the real-binary leg, and the evidence says that the harness part is missing
            harness_ok = False
            log("engine suite: harness does not build against this tree - real-binary leg only:", str(e)[-400:])
        mc = run_mc(tier)
        tag = "e%s%d_%d" % (tier[0], seed, os.getpid())
        if harness_ok:
            groups = make_jobs(tier, seed)
            beh = tlc_behaviours(tier, seed)
            groups.append(("tlc_replay", {"mode": "replay", "max_changes": 99, "signals": True, "max_steps": 400}, beh))
            log("engine suite: %d TLC-generated behaviours to replay" % len(beh))
            jobs = shard(groups, NCPU, seed, tag)
        else:
            jobs = []
        log("engine suite: %d zv jobs" % len(jobs))
        with cf.ThreadPoolExecutor(NCPU) as ex:
            zres = list(ex.map(run_zv, jobs))
        t1 = time.time()
        log("engine suite: harness done in %.0fs" % (t1 - t0))
        # real-binary leg: the unmodified main() with real shells, real signals
        import bb
        build_traced()
        scen = bb.engine_scenarios(tier, seed)
        with cf.ThreadPoolExecutor(NCPU) as ex:
            bres = list(ex.map(bb.run_engine_scenario, scen))
        bbname = tag + "_realbin"
        with open(os.path.join(CACHE, "jobs", bbname + ".ndjson"), "w") as f:
            for b in bres:
                f.write("\n".join(b["raw"]) + "\n")
        jobs.append(("realbin", bbname, None, {"configs": [b["scenario"]["cfg"] for b in bres]}))
        zres.append({"label": "realbin", "name": bbname, "rc": 0, "tail": "",
                     "summary": {"runs": [{"cfg": b["scenario"]["cfg"]["id"], "label": "realbin",
                                           "status": "timeout" if b["timed_out"] else "exit%s" % b["status"],
                                           "steps": [b["scenario"]["name"], json.dumps(b["scenario"]["bodies"]),
                                                     json.dumps(b["scenario"]["actions"]), b["stderr_tail"][-300:]]}
                                          for b in bres]}})
        log("engine suite: real binary leg done in %.0fs (%d scenarios)" % (time.time() - t1, len(scen)))
        t1 = time.time()
        with cf.ThreadPoolExecutor(NCPU) as ex:
            vres = list(ex.map(lambda z: validate_obs(z["name"]), zres))
        log("engine suite: trace validation done in %.0fs" % (time.time() - t1))
        t1 = time.time()
        hz = [z for z in zres if z["summary"] is not None]
        with cf.ThreadPoolExecutor(NCPU) as ex:
            cres = list(ex.map(lambda z: validate_conf(z["name"]), hz))
        log("engine suite: conformance to Engine.tla done in %.0fs" % (time.time() - t1))
        res = {"mc": mc, "tier": tier, "seed": seed, "violations": [], "tool_errors": [], "runs": 0, "traces_validated": 0,
               "events": 0, "nontrivial": {p: 0 for p in ENGINE_PROPS}, "statuses": {}, "samples": [], "by_group": {},
               "tlc_replay": {"behaviours": 0, "followed_to_the_end": 0}}
        seen_nt = {p: set() for p in ENGINE_PROPS}
        for z, v, (label, name, jp, job) in zip(zres, vres, jobs):
            if z["summary"] is None:
                res["tool_errors"].append({"job": name, "rc": z["rc"], "tail": z["tail"]})
                continue
            runs = [r for r in z["summary"]["runs"] if "status" in r]
            cfgs = {c["id"]: c for c in job["configs"]}
            res["runs"] += len(runs)
            res["by_group"][label] = res["by_group"].get(label, 0) + len(runs)
            if not v["ok"]:
                res["tool_errors"].append({"job": name, "what": "trace validation failed", "tail": v.get("tail", "")})
                continue
            res["traces_validated"] += len(v["starts"])
            res["events"] += v["lines"]
            # per-run bookkeeping
            bounds = v["starts"] + [v["lines"] + 1]
            for k, r in enumerate(runs):
                res["statuses"][r["status"]] = res["statuses"].get(r["status"], 0) + 1
                if label == "tlc_replay":
                    res["tlc_replay"]["behaviours"] += 1
                    if not r["status"].startswith("diverged"):
                        res["tlc_replay"]["followed_to_the_end"] += 1
                if k < len(v["starts"]):
                    ev = v["evs"][bounds[k] - 1:bounds[k + 1] - 1]
                    c = cfgs[r["cfg"]]
                    fp = hashlib.md5(json.dumps([c["kind"], c["deps"], c["roots"], c["watch"], r["steps"]]).encode()).hexdigest()
                    for p, f in NONTRIVIAL.items():
                        if f(c, ev):
                            seen_nt[p].add(fp)
                    if len(res["samples"]) < 3 and len(r["steps"]) > 6:
                        res["samples"].append({"cfg": c, "schedule": r["steps"], "status": r["status"]})
            for viol in v["viol"]:
                k = run_index(v["starts"], viol["line"])
                r = runs[k] if k < len(runs) else {"cfg": "?", "steps": []}
                res["violations"].append({"prop": viol["prop"], "sig": viol["sig"], "group": label, "job": name,
                                          "cfg": cfgs.get(r["cfg"]), "steps": r["steps"], "status": r.get("status"),
                                          "confirmed": label == "realbin",
                                          "params": {k2: job.get(k2) for k2 in ("max_changes", "signals", "max_steps")}})
        res["conformance"] = {"runs_following_Engine_tla": sum(c["runs"] for c in cres), "steps": sum(c["lines"] for c in cres),
                              "drift": [d for c in cres for d in c["drift"]][:20], "drift_count": sum(len(c["drift"]) for c in cres)}
        for c in cres:
            if c["error"]:
                res["tool_errors"].append({"job": "conf:" + c["name"], "what": c["error"]})
        if res["conformance"]["drift_count"]:
            log("engine suite: DRIFT - %d run(s) the design specification could not follow" % res["conformance"]["drift_count"])
        res["harness_built"] = harness_ok
        res["nontrivial"] = {p: len(s) for p, s in seen_nt.items()}
        res["wall_s"] = round(time.time() - t0, 1)
        for name, st in mc.items():
            if not st["ok"]:
                res["tool_errors"].append({"job": "tlc:" + name, "what": "model checking of the design failed", "tail": st.get("tail", "")})
        if not res["tool_errors"]:
            json.dump(res, open(cp, "w"))
        return res


PROP_TEXT = {
    "C01": "start-before-ready / aggregate-forwards-early predicates at every start and aggregate Ok",
    "C04": "no quiescent non-terminal state (driver-certified), exit 0 only after everything ran",
    "C06": "watch runs: at driver-certified quiescence every unblocked target is built from the final versions; no stale skip",
    "C07": "no start behind a failed dependency, error names a failed target, exit status",
    "C08": "at most once per one-shot run, never outside the closure",
    "C10": "after a signal or a failure the run exits without any script finishing; nothing alive, every actor joined",
    "C11": "keep-alive iff a service is behind a root; never two instances; actual flags",
    "C17": "targets independent of never-finishing scripts complete; no stall",
    "C20": "aggregate roots: completeness / keep-alive identical to the closed form over their dependencies",
}


def describe(pid, res):
    mcs = {n: st for n, st in res["mc"].items() if pid in st.get("serves", [])}
    states = sum(st["distinct"] for st in mcs.values())
    trans = sum(st["generated"] for st in mcs.values())
    cov = {
        "states": states, "transitions": trans,
        "traces_validated_against_impl": res["traces_validated"],
        "samples": res["samples"][:2] + [{"tlc_configuration": n, "constants": st["constants"], "distinct_states": st["distinct"],
                                          "invariants": st["invariants"], "temporal": st["properties"]} for n, st in list(mcs.items())[:3]],
        "evaluations": res["runs"],
        "distinct_nontrivial": res["nontrivial"].get(pid, 0),
        "rule": "one evaluation = one schedule-controlled execution of the real engine (zv harness) on one configuration; "
                "non-trivial for %s = distinct (configuration, schedule) pairs in which its antecedent occurred; predicate: %s"
                % (pid, PROP_TEXT[pid]),
        "exhaustive": False,
        "tlc_configurations": {n: {"distinct": st["distinct"], "generated": st["generated"], "depth": st.get("depth"),
                                   "wall_s": st["wall_s"]} for n, st in mcs.items()},
        "harness_runs_by_group": res["by_group"], "run_statuses": res["statuses"], "trace_events": res["events"],
        "conformance_to_Engine_tla": res.get("conformance"),
        "tlc_generated_behaviours_replayed_into_the_code": res.get("tlc_replay"),
        "harness_built_against_this_tree": res.get("harness_built", True),
    }
    assumptions = [
        "Engine.tla abstractions: relay may take any sender's oldest message; handler-local updates atomic with the receive; "
        "sends to several requesters in id order (delivery order is free anyway)",
        "harness serialises actor steps (one stimulus at a time); suspended sends on full queues are only in the TLC capacity configurations",
        "virtual build shells stand for the scripts in the harness; real shells are covered by the real-binary leg",
    ]
    return cov, "model_checking", assumptions
