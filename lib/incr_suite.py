"""Incremental suite (properties C02 C03 C05 C13 C18).
 1. TLC model-checks Incremental.tla (every interleaving of user operations, run phases, crashes, corruption);
 2. generated histories are executed on real files by the REAL loader + resolver + incremental::run (zv incr) and by the
    real binary (crash points by abort(), SIGKILL/SIGINT/SIGTERM during the script, --clean, entry points);
 3. TLC folds every recorded history through IncrementalObs.tla, which carries Incremental.tla's abstract state along
    and compares each decision zinoma took with the one the specification prescribes."""
import concurrent.futures as cf
import hashlib, json, os, random, re, shutil, time

from common import *  # noqa: F403

PROPS = ["C02", "C03", "C05", "C13", "C18"]

CONTENTS = {0: (5, 97, 97), 1: (5, 97, 98), 2: (1024, 97, 97), 3: (1024, 97, 98), 4: (1025, 97, 97), 5: (1025, 97, 98),
            6: (5000, 97, 97), 7: (5000, 97, 98), 8: (0, 97, 97), 9: (1, 97, 120)}


def content(cid):
    n, fill, last = CONTENTS[cid]
    return {"size": n, "fill": fill, "last": last}


def wr(path, cid, mt, real=None):
    return {"op": "write", "path": real or path, "content": content(cid), "mtime": mt, "m": {"p": path, "c": cid, "mt": mt}}


def cmdwr(valfile, key, v):
    # a command resource `cat <valfile>`: its stdout is the file's content; modelled as pseudo-path `key`
    return {"op": "write", "path": valfile, "content": {"size": 3 + v, "fill": 48 + v % 10, "last": 48 + v % 10}, "mtime": None,
            "m": {"p": key, "c": 100 + v, "mt": 100 + v}}


def rm(path):
    return {"op": "delete", "path": path, "m": {"p": path}}


def mv(a, b):
    return {"op": "rename", "from": a, "to": b, "m": {"from": a, "to": b}}


def invoke(t, entry=".", outcome="ok", writes=(), deletes=(), crash="none", name=None):
    ws = [{"path": p, "content": content(c), "mtime": mt} for p, c, mt in writes]
    return {"op": "invoke", "t": name or t, "entry": entry, "crash": None if crash == "none" else crash,
            "script": {"outcome": outcome, "writes": ws, "deletes": list(deletes)},
            "m": {"t": t, "crash": crash, "script": {"outcome": outcome, "writes": [{"p": p, "c": c, "mt": mt} for p, c, mt in writes],
                                                      "deletes": list(deletes)}}}


def corrupt(t, flavour, project_dir=".", fname=None, **kw):
    d = {"op": "corrupt", "t": fname or t, "flavour": flavour, "project_dir": project_dir, "m": {"t": t, "flavour": flavour, "other": kw.pop("other_model", "")}}
    d.update(kw)
    return d


ABSURD = ["0100000000000000ffffffffffffff7f", "0100000000000000ffffffffffffffff", "01000000000000000000000000000100",
          "ffffffffffffffff", "0100000000000000", "00", "0000000000000000000000000000000000"]

CRASHES = ["incr_checked", "incr_deleted", "incr_captured", "script", "incr_script_done", "incr_computed", "incr_saved"]

# ---------------------------------------------------------------------------------------------- templates

T_SINGLE = """targets:
  t:
    input:
      - paths: [src]
        extensions: [txt]
      - paths: [single.cfg]
    output:
      - paths: [out]
    build: 'true'
"""


def tmpl_single(rng):
    members = ["src/a.txt", "src/b.txt", "src/sub/c.txt", "single.cfg"]
    others = ["src/d.csv", "src/.zinoma/x.txt", "other.txt", "src/sub/.zinoma/deep/y.txt"]
    outs = ["out/o1", "out/sub/o2"]
    model = {"paths": members + others + outs,
             "targets": {"t": {"inp": members, "out": outs, "hasInput": True}}}
    return {"files": {"zinoma.yml": T_SINGLE}, "model": model, "members": members, "others": others,
            "outs": {"t": outs}, "targets": ["t"], "inv": {"t": dict(entry=".", name="t")}, "state": {"t": (".", "t")}}


T_CMD = """targets:
  t:
    input:
      - cmd_stdout: cat a.val
      - paths: [in.txt]
    output:
      - cmd_stdout: cat o.val
      - paths: [res.bin]
    build: 'true'
"""


def tmpl_cmd(rng):
    members = ["in.txt", "CMD:.:cat a.val"]
    outs = ["res.bin", "CMD:.:cat o.val"]
    model = {"paths": members + outs + ["other.txt"],
             "targets": {"t": {"inp": members, "out": outs, "hasInput": True}}}
    return {"files": {"zinoma.yml": T_CMD}, "model": model, "members": ["in.txt"], "others": ["other.txt"],
            "cmds": {"CMD:.:cat a.val": "a.val", "CMD:.:cat o.val": "o.val"}, "cmd_in": ["CMD:.:cat a.val"],
            "outs": {"t": ["res.bin"]}, "cmd_out": {"t": ["CMD:.:cat o.val"]}, "targets": ["t"],
            "inv": {"t": dict(entry=".", name="t")}, "state": {"t": (".", "t")}}


T_ROOT = """imports:
  sub: sub
targets:
  c:
    input:
      - sub::p.output
      - paths: [data]
      - cmd_stdout: cat v.val
    output:
      - paths: [c.out]
    build: 'true'
"""
T_SUB = """name: sub
targets:
  p:
    input:
      - paths: [data]
    output:
      - paths: [gen]
        extensions: [o]
      - cmd_stdout: cat v.val
    build: 'true'
"""
# sub/gen/lib.o is a symbolic link to sub/real/lib.o.1 (not itself matched): writes to the real file are changes of the link


def tmpl_multi(rng):
    # identical relative paths (data/..) and identical command text (cat v.val) in both project directories
    p_in = ["sub/data/x.txt"]
    p_out = ["sub/gen/a.o", "sub/gen/deep/b.o", "sub/gen/lib.o", "CMD:sub:cat v.val"]
    c_in = ["data/x.txt", "CMD:.:cat v.val"] + p_out
    model = {"paths": p_in + p_out + c_in[:2] + ["c.out", "sub/gen/readme.md", "gen/a.o"],
             "targets": {"p": {"inp": p_in, "out": p_out, "hasInput": True},
                         "c": {"inp": c_in, "out": ["c.out"], "hasInput": True}},
             "focus": ["C13", "C18"]}
    # the importing project may name the imported directory through a symbolic link or a dotted spelling: one directory all the same
    imp = rng.choice(["sub", "sub", "sublink", "sub/../sublink/."])
    return {"files": {"zinoma.yml": T_ROOT.replace("sub: sub", "sub: " + imp), "sub/zinoma.yml": T_SUB}, "model": model,
            "members": ["data/x.txt", "sub/data/x.txt", "sub/gen/a.o", "sub/gen/deep/b.o", "sub/gen/lib.o"],
            "real": {"sub/gen/lib.o": "sub/real/lib.o.1"},
            "setup": [{"op": "symlink", "path": "sub/gen/lib.o", "to": "../real/lib.o.1", "m": {}},
                      {"op": "symlink", "path": "sublink", "to": "sub", "m": {}}],
            "others": ["sub/gen/readme.md", "gen/a.o"],
            "cmds": {"CMD:.:cat v.val": "v.val", "CMD:sub:cat v.val": "sub/v.val"}, "cmd_in": ["CMD:.:cat v.val", "CMD:sub:cat v.val"],
            "outs": {"p": ["sub/gen/a.o", "sub/gen/deep/b.o", "sub/gen/lib.o"], "c": ["c.out"]}, "cmd_out": {"p": ["CMD:sub:cat v.val"]},
            "targets": ["p", "c"],
            "inv": {"p": [dict(entry=".", name="sub::p"), dict(entry="sub", name="p"), dict(entry="sub", name="sub::p"),
                          dict(entry="sub/../sub", name="p"), dict(entry="sublink", name="p"), dict(entry="sub/./../sub/.", name="sub::p")],
                    "c": dict(entry=".", name="c")},
            "state": {"p": ("sub", "sub::p"), "c": (".", "c")}}


T_NOINPUT = """targets:
  t:
    output:
      - paths: [o.txt]
    build: 'true'
  gen:
    input:
      - paths: [g.in]
    build: 'true'
  gen-docs:
    input:
      - paths: [g.in, d.in]
    output:
      - paths: [docs.out]
    build: 'true'
  gen_docs:
    input:
      - paths: [g.in, d.in]
    build: 'true'
  Gen:
    input:
      - paths: [d.in]
    build: 'true'
"""


def tmpl_names(rng):
    # names that differ only in '-' / '_' or in letter case, one a prefix of another, the same inputs: their records stay apart
    model = {"paths": ["o.txt", "g.in", "d.in", "docs.out", "x.txt"],
             "targets": {"t": {"inp": [], "out": ["o.txt"], "hasInput": False},
                         "gen": {"inp": ["g.in"], "out": [], "hasInput": True},
                         "gen-docs": {"inp": ["g.in", "d.in"], "out": ["docs.out"], "hasInput": True},
                         "gen_docs": {"inp": ["g.in", "d.in"], "out": [], "hasInput": True},
                         "Gen": {"inp": ["d.in"], "out": [], "hasInput": True}},
             "focus": ["C18", "C08"]}
    return {"files": {"zinoma.yml": T_NOINPUT}, "model": model, "members": ["g.in", "d.in"], "others": ["x.txt"],
            "outs": {"t": ["o.txt"], "gen": [], "gen-docs": ["docs.out"], "gen_docs": [], "Gen": []},
            "targets": ["t", "gen", "gen-docs", "gen_docs", "Gen"],
            "inv": {k: dict(entry=".", name=k) for k in ("t", "gen", "gen-docs", "gen_docs", "Gen")},
            "state": {k: (".", k) for k in ("t", "gen", "gen-docs", "gen_docs", "Gen")}}


T_DUP = """targets:
  p:
    input:
      - paths: [p.in]
    output:
      - cmd_stdout: cat tool.ver
    build: 'true'
  q:
    input:
      - paths: [q.in]
    output:
      - cmd_stdout: cat tool.ver
      - paths: [q.out]
    build: 'true'
  c:
    input:
      - p.output
      - q.output
      - cmd_stdout: cat tool.ver
      - paths: [q.out]
    output:
      - paths: [c.out]
    build: 'true'
"""


def tmpl_dup(rng):
    # the same (directory, command) resource and the same path reach the consumer several times
    model = {"paths": ["p.in", "q.in", "q.out", "c.out", "CMD:.:cat tool.ver", "x.txt"],
             "targets": {"p": {"inp": ["p.in"], "out": ["CMD:.:cat tool.ver"], "hasInput": True},
                         "q": {"inp": ["q.in"], "out": ["CMD:.:cat tool.ver", "q.out"], "hasInput": True},
                         "c": {"inp": ["CMD:.:cat tool.ver", "q.out"], "out": ["c.out"], "hasInput": True}},
             "focus": ["C13"]}
    return {"files": {"zinoma.yml": T_DUP}, "model": model, "members": ["p.in", "q.in", "q.out"], "others": ["x.txt"],
            "cmds": {"CMD:.:cat tool.ver": "tool.ver"}, "cmd_in": ["CMD:.:cat tool.ver"],
            "outs": {"p": [], "q": ["q.out"], "c": ["c.out"]}, "cmd_out": {"p": ["CMD:.:cat tool.ver"], "q": ["CMD:.:cat tool.ver"]},
            "targets": ["p", "q", "c"], "inv": {k: dict(entry=".", name=k) for k in ("p", "q", "c")},
            "state": {k: (".", k) for k in ("p", "q", "c")}}


T_OUTER = """imports:
  lib: libs/lib
targets:
  bundle:
    input:
      - paths: [libs]
    output:
      - paths: [bundle.out]
    build: 'true'
"""
T_INNER = """name: lib
targets:
  gen:
    input:
      - paths: [src]
    output:
      - paths: [gen.out]
    build: 'true'
"""


def tmpl_nested(rng):
    # an imported project lives INSIDE an input directory of a target of the importing project: its project file, its sources
    # and its outputs are inputs of the outer target - its recorded state (.zinoma, two levels down) is not
    inner_in = ["libs/lib/src/a.txt", "libs/lib/src/b.txt"]
    outer_in = ["libs/lib/zinoma.yml", "libs/readme.txt", "libs/lib/gen.out"] + inner_in
    model = {"paths": outer_in + ["bundle.out", "other.txt"],
             "targets": {"gen": {"inp": inner_in, "out": ["libs/lib/gen.out"], "hasInput": True},
                         "bundle": {"inp": outer_in, "out": ["bundle.out"], "hasInput": True}},
             "focus": ["C18", "C15"]}
    return {"files": {"zinoma.yml": T_OUTER, "libs/lib/zinoma.yml": T_INNER}, "model": model,
            "members": inner_in + ["libs/readme.txt"], "others": ["other.txt"],
            "setup": [{"op": "touch", "path": "libs/lib/zinoma.yml", "mtime": 1, "m": {"p": "libs/lib/zinoma.yml", "c": 99, "mt": 1}}],
            "outs": {"gen": ["libs/lib/gen.out"], "bundle": ["bundle.out"]}, "targets": ["gen", "bundle"],
            "inv": {"gen": [dict(entry=".", name="lib::gen"), dict(entry="libs/lib", name="gen")], "bundle": dict(entry=".", name="bundle")},
            "state": {"gen": ("libs/lib", "lib::gen"), "bundle": (".", "bundle")}}


T_FILT = """targets:
  g:
    input:
      - paths: [g.in]
    output:
      - paths: [gen]
    build: 'true'
  c:
    input:
      - paths: [gen]
        extensions: [h]
      - g.output
    output:
      - paths: [c.out]
    build: 'true'
  d:
    input:
      - paths: [gen]
        extensions: [h]
      - paths: [gen]
        extensions: [c]
    output:
      - paths: [d.out]
    build: 'true'
"""


def tmpl_filt(rng):
    # the same directory reaches a target several times with different (or no) extension filters: the target depends on the
    # union of what each resource denotes
    allg = ["gen/a.h", "gen/b.c", "gen/notes.md"]
    model = {"paths": ["g.in", "c.out", "d.out", "x.txt"] + allg,
             "targets": {"g": {"inp": ["g.in"], "out": allg, "hasInput": True},
                         "c": {"inp": allg, "out": ["c.out"], "hasInput": True},
                         "d": {"inp": ["gen/a.h", "gen/b.c"], "out": ["d.out"], "hasInput": True}},
             "focus": ["C13", "C15"]}
    return {"files": {"zinoma.yml": T_FILT}, "model": model, "members": ["g.in"] + allg, "others": ["x.txt"],
            "outs": {"g": allg, "c": ["c.out"], "d": ["d.out"]},
            "targets": ["g", "c", "d"], "inv": {k: dict(entry=".", name=k) for k in ("g", "c", "d")},
            "state": {k: (".", k) for k in ("g", "c", "d")}}


TEMPLATES = [("single", tmpl_single, 4), ("cmd", tmpl_cmd, 2), ("multi", tmpl_multi, 4), ("names", tmpl_names, 2), ("dup", tmpl_dup, 2),
             ("nested", tmpl_nested, 2), ("filt", tmpl_filt, 2)]


def gen_history(rng, hid, tname, T, nops, faults=True):
    ops = list(T.get("setup", []))
    mt = {}
    real = T.get("real", {})
    # initial population
    for p in T["members"] + T["others"]:
        if rng.random() < 0.8:
            c, m = rng.choice(list(CONTENTS)), rng.randint(0, 5)
            ops.append(wr(p, c, m, real.get(p)))
    for key, vf in T.get("cmds", {}).items():
        ops.append(cmdwr(vf, key, rng.randint(0, 3)))
    built = set()
    for _ in range(nops):
        r = rng.random()
        if r < 0.42:
            t = rng.choice(T["targets"])
            iv = T["inv"][t]
            iv = rng.choice(iv) if isinstance(iv, list) else iv
            outcome = "ok"
            crash = "none"
            if faults and rng.random() < 0.35:
                x = rng.random()
                if x < 0.3:
                    outcome = "fail"
                elif x < 0.5:
                    outcome = "cancel"
                else:
                    crash = rng.choice(CRASHES)
            writes = []
            for o in T["outs"].get(t, []):
                if rng.random() < 0.7 and o not in real:
                    writes.append((o, rng.choice(list(CONTENTS)), rng.randint(0, 9)))
            deletes = [o for o in T["outs"].get(t, []) if rng.random() < 0.1 and not any(w[0] == o for w in writes) and o not in real]
            op = invoke(t, entry=iv["entry"], name=iv["name"], outcome=outcome, writes=writes, deletes=deletes, crash=crash)
            ops.append(op)
            # a command output the script "regenerates"
            for key in T.get("cmd_out", {}).get(t, []):
                if rng.random() < 0.3:
                    ops.insert(len(ops) - 1, cmdwr(T["cmds"][key], key, rng.randint(0, 3)))
            built.add(t)
        elif r < 0.72:
            p = rng.choice(T["members"] + T["others"] + [o for os_ in T["outs"].values() for o in os_])
            kind = rng.random()
            if kind < 0.2 and p not in real:
                ops.append(rm(p))
            else:
                ops.append(wr(p, rng.choice(list(CONTENTS)), rng.randint(0, 9), real.get(p)))
        elif r < 0.8 and T.get("cmds"):
            key = rng.choice(list(T["cmds"]))
            ops.append(cmdwr(T["cmds"][key], key, rng.randint(0, 3)))
        elif r < 0.86:
            a, b = rng.sample([x for x in T["members"] + T["others"] if x not in real], 2)
            ops.append(mv(a, b))
        elif faults and built:
            t = rng.choice(sorted(built))
            pd, fname = T["state"][t]
            fl = rng.choice(["truncate", "hex", "lorem", "foreign"])
            if fl == "truncate":
                ops.append(corrupt(t, "truncate", pd, fname, k=rng.randint(0, 400)))
            elif fl == "hex":
                ops.append(corrupt(t, "hex", pd, fname, hex=rng.choice(ABSURD)))
            elif fl == "flip":
                ops.append(corrupt(t, "flip", pd, fname, k=rng.randint(0, 10)))
            elif fl == "foreign" and len(T["targets"]) > 1:
                o = rng.choice([x for x in T["targets"] if x != t])
                if T["state"][o][0] == pd:
                    ops.append(corrupt(t, "foreign", pd, fname, other=T["state"][o][1], other_model=o))
            else:
                ops.append(corrupt(t, "lorem", pd, fname))
    # an input-less target must run whatever lies in its state file: a complete record of a sibling is copied over it after the
    # sibling was built (this is how F11 was met at seed 3; it is now part of every second history that has such a target)
    noin = [t for t in T["targets"] if not T["model"]["targets"][t]["hasInput"]]
    if faults and noin and rng.random() < 0.5:
        t = noin[0]
        pd, fname = T["state"][t]
        sib = [o for o in T["targets"] if o != t and T["model"]["targets"][o]["hasInput"] and T["state"][o][0] == pd]
        if sib:
            o = rng.choice(sib)
            ivo = T["inv"][o]
            ivo = ivo[0] if isinstance(ivo, list) else ivo
            ivt = T["inv"][t]
            ivt = ivt[0] if isinstance(ivt, list) else ivt
            if rng.random() < 0.6:
                # ... a sibling whose declared inputs currently match no file and whose outputs are absent, like the target's own:
                # its record describes "nothing", exactly what an input-less target with absent outputs looks like
                for p in T["model"]["targets"][o]["inp"] + T["model"]["targets"][o]["out"] + T["model"]["targets"][t]["out"]:
                    if p in T["model"]["paths"] and not p.startswith("CMD:") and p not in real:
                        ops.append(rm(p))
            ops.append(invoke(o, entry=ivo["entry"], name=ivo["name"]))
            ops.append(corrupt(t, "foreign", pd, fname, other=T["state"][o][1], other_model=o))
            ops.append(invoke(t, entry=ivt["entry"], name=ivt["name"]))
    # always end with an untouched re-invocation of every target (C03: nothing changed => skipped)
    for t in T["targets"]:
        iv = T["inv"][t]
        iv = iv[0] if isinstance(iv, list) else iv
        ops.append(invoke(t, entry=iv["entry"], name=iv["name"]))
        iv2 = T["inv"][t]
        iv2 = rng.choice(iv2) if isinstance(iv2, list) else iv2
        ops.append(invoke(t, entry=iv2["entry"], name=iv2["name"]))
    return {"id": hid, "template": tname, "files": T["files"], "model": T["model"], "ops": ops}


def fix_flip(h):
    """a flipped byte may or may not make the record undecodable: such histories end at the flip (the next decision is
    unconstrained by the properties except 'no panic, no wrong skip'), so 'flip' is followed by a real change of an input"""
    return h


def make_histories(tier, seed):
    rng = random.Random(seed * 31 + 5)
    quick = tier != "thorough"
    n = 2400 if quick else 24000
    hs = []
    weights = [w for _, _, w in TEMPLATES]
    for k in range(n):
        name, f, _ = rng.choices(TEMPLATES, weights=weights)[0]
        T = f(rng)
        hs.append(gen_history(rng, "h%d" % k, name, T, rng.randint(4, 14), faults=(k % 3 != 0)))
    return hs


VIOL_RE = re.compile(r'^"?MONITOR-VIOLATION (C\d+) @(\d+) (.*?)"?$')


def run_shard(args):
    name, hs = args
    jp = os.path.join(CACHE, "jobs", name + ".json")
    out = os.path.join(CACHE, "jobs", name + ".ndjson")
    # a death of the harness process (abort in the allocator, stack overflow, ...) while it executes zinoma's code is data:
    # the operation that was running is recorded as 'panic' and the remaining histories go to a fresh process
    todo = list(hs)
    all_lines = []
    deaths = 0
    while todo:
        json.dump({"out": out, "scratch": os.path.join(CACHE, "scratch"), "histories": todo}, open(jp, "w"))
        rc, o = run(["timeout", "-k", "2", "1500", ZV, "incr", jp], timeout=1600)
        got = []
        if os.path.exists(out):
            for l in open(out, errors="replace"):
                try:
                    got.append(json.loads(l))
                except ValueError:
                    break           # the process died while writing this line
        if rc == 0:
            all_lines += got
            break
        deaths += 1
        if rc == 124 or deaths > 20 or not got:
            return {"name": name, "error": "zv incr rc=%d: %s" % (rc, o[-1500:])}
        starts_ = [i for i, e in enumerate(got) if e["e"] == "hist"]
        last = got[starts_[-1]:]
        hid = last[0]["id"]
        k = next(i for i, h in enumerate(todo) if h["id"] == hid)
        done_ops = len(last) - 1
        op = todo[k]["ops"][done_ops] if done_ops < len(todo[k]["ops"]) else None
        all_lines += got
        if op is not None and op["op"] == "invoke":
            all_lines.append({"e": "invoke", "k": done_ops, "m": op["m"], "decision": "none", "result": "panic"})
        todo = todo[k + 1:]
    with open(out, "w") as f:
        for l in all_lines:
            f.write(json.dumps(l) + "\n")
    # 'flip' corruptions: whether the flipped record still decodes is not something the model knows; the history is
    # cut right after the flip's following invocation is made non-constraining -> we simply drop histories with flips
    lines = [json.loads(l) for l in open(out)]
    rc, o = tlc("IncrementalObs.tla", "EngineObs.cfg", workers=1, env={"TRACE": out}, timeout=1200,
                java_opts="-Xss1g -Xmx3g -Dtlc2.tool.queue.IStateQueue=StateDeque", metaname="iobs_" + name)
    viol = []
    for line in o.splitlines():
        m = VIOL_RE.match(line.strip())
        if m:
            viol.append({"prop": m.group(1), "sig": m.group(3), "line": int(m.group(2))})
    consumed = ("TRACE-LINES" in o) and ("TRACE-NOT-CONSUMED" not in o)
    if not consumed:
        return {"name": name, "error": "trace validation failed: " + "\n".join(l for l in o.splitlines() if not TLC_NOISE.match(l))[-2000:]}
    starts = [i + 1 for i, e in enumerate(lines) if e["e"] == "hist"]
    return {"name": name, "lines": lines, "viol": viol, "starts": starts}


# ---------------------------------------------------------------------------------------------- real binary leg

BB_YAML = """targets:
  t:
    input:
      - paths: [in.txt]
    output:
      - paths: [out.txt]
    build: |
      echo built > out.txt
      touch started.flag
      %s
"""

BB_FAULTS = {
    # name: (script tail, action on zinoma, model outcome, model crash)
    "exit3": ("exit 3", None, "fail", "none"),
    "kill_self": ("kill -KILL $$", None, "fail", "none"),
    "term_self": ("kill -TERM $$", None, "fail", "none"),
    "segv_self": ("kill -SEGV $$", None, "fail", "none"),
    "exit130": ("exit 130", None, "fail", "none"),
    "sigint": ("exec sleep 600", "INT", "cancel", "none"),
    "sigterm": ("exec sleep 600", "TERM", "cancel", "none"),
    "sigkill": ("exec sleep 600", "KILL", "ok", "script"),
}
for _p in CRASHES:
    if _p != "script":
        BB_FAULTS["abort@" + _p] = ("true", None, "ok", _p)


def bb_history(args):
    """build; edit; faulty run; plain run; plain run - on the real binary; decisions read from its hook log"""
    import bb
    hid, fault = args
    tail, action, outcome, crash = BB_FAULTS[fault]
    d = os.path.join(CACHE, "scratch", "bbi_%d_%s" % (os.getpid(), hid))
    shutil.rmtree(d, ignore_errors=True)
    os.makedirs(d)
    model = {"paths": ["in.txt", "out.txt"], "targets": {"t": {"inp": ["in.txt"], "out": ["out.txt"], "hasInput": True}}}
    lines = [{"e": "hist", "id": hid, "model": model}]
    mt = [0]

    def write_in(c):
        mt[0] += 1
        open(os.path.join(d, "in.txt"), "w").write("content %d\n" % c)
        os.utime(os.path.join(d, "in.txt"), (1600000000 + mt[0], 1600000000 + mt[0]))
        lines.append({"e": "write", "k": len(lines), "m": {"p": "in.txt", "c": c, "mt": mt[0]}})

    def run_once(script_tail, act, m_outcome, m_crash, env=None):
        open(os.path.join(d, "zinoma.yml"), "w").write(BB_YAML % script_tail)
        flag = os.path.join(d, "started.flag")
        if os.path.exists(flag):
            os.unlink(flag)
        trace = os.path.join(d, "trace.ndjson")
        if os.path.exists(trace):
            os.unlink(trace)
        actions = [(("grep", '"build_spawned"', 0.25), act)] if act else []
        r = bb.run_zinoma(d, ["t"], trace, timeout=15, actions=actions, env=env)
        evs = [json.loads(l) for l in open(trace)] if os.path.exists(trace) else []
        chk = [e for e in evs if e["ev"] == "incr_checked"]
        decision = "none" if not chk else ("skip" if chk[0].get("skip") else "run")
        ran = os.path.exists(flag)
        mt[0] += 1
        writes = [{"p": "out.txt", "c": 50, "mt": 1000 + mt[0]}] if (decision == "run" and ran) else []
        # the script runs only past the spawn: aborts before it write nothing
        result = "hang" if r["timed_out"] else ("panic" if "panicked" in r["err"] and m_crash == "none" else ("completed" if r["status"] == 0 else "failed: exit"))
        if decision == "skip":
            result = "skipped"
        lines.append({"e": "invoke", "k": len(lines), "decision": decision, "result": result,
                      "m": {"t": "t", "crash": m_crash, "script": {"outcome": m_outcome, "writes": writes, "deletes": []}}})
        return r

    write_in(1)
    run_once("true", None, "ok", "none")
    write_in(2)
    env = {"ZINOMA_VERIF_CRASH": fault.split("@")[1] + "@t"} if fault.startswith("abort@") else None
    run_once(tail, action, outcome, crash, env=env)
    run_once("true", None, "ok", "none")
    run_once("true", None, "ok", "none")
    shutil.rmtree(d, ignore_errors=True)
    return lines


def bb_leg(tier, seed, tag):
    build_traced()
    faults = sorted(BB_FAULTS)
    reps = 1 if tier != "thorough" else 4
    jobs = [("b%d_%s" % (i, f.replace("@", "_")), f) for i in range(reps) for f in faults]
    with cf.ThreadPoolExecutor(NCPU) as ex:
        hs = list(ex.map(bb_history, jobs))
    out = os.path.join(CACHE, "jobs", tag + "_bb.ndjson")
    flat = [l for h in hs for l in h]
    with open(out, "w") as f:
        for l in flat:
            f.write(json.dumps(l) + "\n")
    rc, o = tlc("IncrementalObs.tla", "EngineObs.cfg", workers=1, env={"TRACE": out}, timeout=600,
                java_opts="-Xss1g -Xmx2g -Dtlc2.tool.queue.IStateQueue=StateDeque", metaname="iobs_" + tag + "_bb")
    if "TRACE-LINES" not in o or "TRACE-NOT-CONSUMED" in o:
        return {"error": "bb trace validation failed: " + "\n".join(x for x in o.splitlines() if not TLC_NOISE.match(x))[-1500:]}
    viol = []
    starts = [i + 1 for i, e in enumerate(flat) if e["e"] == "hist"]
    for line in o.splitlines():
        m = VIOL_RE.match(line.strip())
        if m:
            ln = int(m.group(2))
            hi = max(j for j, s_ in enumerate(starts) if s_ <= ln)
            viol.append({"prop": m.group(1), "sig": m.group(3), "group": "incr:realbin", "case": {"fault": jobs[hi][1], "history": hs[hi]},
                         "observed": flat[ln - 1], "confirmed": True})
    return {"viol": viol, "histories": len(hs), "faults": faults}


def mc(tier):
    out = {}
    spec_h = tree_hash([os.path.join(SPEC, "Incremental.tla")])
    cfgs = [("inc_p2", {"Paths": "{p1, p2}", "NT": 1, "MaxM": 1, "MaxC": 1, "MaxOps": 2, "MaxInv": 2, "RecordBefore": True, "GuardNoInput": True, "Foreigns": True}),
            ("inc_t2", {"Paths": "{p1, p2}", "NT": 2, "MaxM": 1, "MaxC": 1, "MaxOps": 1, "MaxInv": 2, "RecordBefore": True, "GuardNoInput": True, "Foreigns": False})]
    if tier == "thorough":
        cfgs.append(("inc_p3", {"Paths": "{p1, p2, p3}", "NT": 1, "MaxM": 1, "MaxC": 1, "MaxOps": 2, "MaxInv": 2, "RecordBefore": True, "GuardNoInput": True, "Foreigns": False}))
    invs = ["TypeOK", "FullOnlyFromSuccess", "SkipMeansUpToDate", "SkipComplete", "NoInputNoRecord"]
    for name, consts in cfgs:
        key = hashlib.sha256(json.dumps([spec_h, name, consts, invs], sort_keys=True).encode()).hexdigest()[:16]
        cp = os.path.join(RESULTS, "mc_%s_%s.json" % (name, key))
        if os.path.exists(cp):
            out[name] = json.load(open(cp))
            continue
        cfg = write_cfg("Incremental_" + name, consts, invs, ["RecIndependent", "NoInputNeverSkipped"], "Spec", False)
        t0 = time.time()
        rc, o = tlc("Incremental.tla", cfg, workers=min(12, NCPU), timeout=3000, metaname="mc_" + name)
        st = tlc_stats(o)
        st.update({"name": name, "constants": consts, "invariants": invs, "properties": ["RecIndependent", "NoInputNeverSkipped"],
                   "wall_s": round(time.time() - t0, 1)})
        if st["ok"]:
            json.dump(st, open(cp, "w"))
        else:
            st["tail"] = "\n".join(l for l in o.splitlines() if not TLC_NOISE.match(l))[-2500:]
        log("TLC %s: %s distinct=%d %.0fs" % (name, "ok" if st["ok"] else "FAILED", st["distinct"], st["wall_s"]))
        out[name] = st
    return out


NONTRIVIAL = {
    "C02": lambda h, evs: any(e["e"] == "invoke" and e.get("decision") == "skip" for e in evs),
    "C03": lambda h, evs: sum(1 for e in evs if e["e"] == "invoke" and e.get("decision") == "skip") >= 1,
    "C05": lambda h, evs: any(e["e"] == "corrupt" or (e["e"] == "invoke" and (e["m"]["crash"] != "none" or e["m"]["script"]["outcome"] != "ok")) for e in evs),
    "C13": lambda h, evs: h["template"] == "multi",
    "C18": lambda h, evs: h["template"] in ("multi", "names", "nested"),
}


def suite(tier, seed):
    key = "incr_%s_%s_%s_%d" % (repo_hash(), verif_hash(), tier, seed)
    cp = os.path.join(RESULTS, key + ".json")
    if os.path.exists(cp):
        return json.load(open(cp))
    with Lock("incr-suite"):
        if os.path.exists(cp):
            return json.load(open(cp))
        t0 = time.time()
        harness_ok = True
        try:
            build_harness()
        except ToolError as e:
            harness_ok = False
            log("incremental suite: harness does not build against this tree - real-binary leg only:", str(e)[-400:])
        res = {"engine": "incr", "harness_built": harness_ok, "mc": mc(tier), "tier": tier, "seed": seed, "violations": [], "tool_errors": [], "runs": 0,
               "traces_validated": 0, "events": 0, "samples": [], "nontrivial": {}}
        hs = make_histories(tier, seed) if harness_ok else []
        byid = {h["id"]: h for h in hs}
        k = NCPU
        shards = [("i%s%d_%d_%d" % (tier[0], seed, os.getpid(), s), hs[s::k]) for s in range(k) if hs[s::k]]
        with cf.ThreadPoolExecutor(NCPU) as ex:
            rs = list(ex.map(run_shard, shards))
        seen = {p: set() for p in PROPS}
        for r in rs:
            if "error" in r:
                res["tool_errors"].append({"job": r["name"], "what": r["error"]})
                continue
            lines = r["lines"]
            bounds = r["starts"] + [len(lines) + 1]
            res["traces_validated"] += len(r["starts"])
            res["events"] += len(lines)
            for i, s in enumerate(r["starts"]):
                evs = lines[s - 1:bounds[i + 1] - 1]
                h = byid[evs[0]["id"]]
                res["runs"] += 1
                fp = hashlib.md5(json.dumps(h["ops"], sort_keys=True).encode()).hexdigest()
                for p, f in NONTRIVIAL.items():
                    if f(h, evs):
                        seen[p].add(fp)
                if len(res["samples"]) < 2:
                    res["samples"].append({"template": h["template"],
                                           "history": [dict(e.get("m") or {}, op=e["e"], decision=e.get("decision")) for e in evs[1:12]]})
            for v in r["viol"]:
                i = max(j for j, s in enumerate(r["starts"]) if s <= v["line"])
                h = byid[lines[r["starts"][i] - 1]["id"]]
                res["violations"].append({"prop": v["prop"], "sig": v["sig"], "group": "incr:" + h["template"], "case": h,
                                          "observed": lines[v["line"] - 1], "confirmed": False})
        res["nontrivial"] = {p: len(s) for p, s in seen.items()}
        b = bb_leg(tier, seed, "i%s%d_%d" % (tier[0], seed, os.getpid()))
        if "error" in b:
            res["tool_errors"].append({"job": "incr:realbin", "what": b["error"]})
        else:
            res["violations"] += b["viol"]
            res["realbin"] = {"histories": b["histories"], "faults": b["faults"]}
            res["traces_validated"] += b["histories"]
        for name, st in res["mc"].items():
            if not st["ok"]:
                res["tool_errors"].append({"job": "tlc:" + name, "what": "model checking of Incremental.tla failed", "tail": st.get("tail", "")})
        res["wall_s"] = round(time.time() - t0, 1)
        if not res["tool_errors"]:
            json.dump(res, open(cp, "w"))
        return res


def replay(pid, path):
    rp = json.load(open(path))
    build_harness()
    r = run_shard(("ireplay_%d" % os.getpid(), [rp["case"]]))
    if "error" in r:
        raise ToolError(r["error"])
    return [v for v in r["viol"] if v["prop"] == pid], "replayed"


def describe(pid, res):
    states = sum(st["distinct"] for st in res["mc"].values())
    trans = sum(st["generated"] for st in res["mc"].values())
    cov = {"states": states, "transitions": trans, "traces_validated_against_impl": res["traces_validated"],
           "samples": res["samples"][:2] + [{"tlc_configuration": n, "constants": st["constants"], "distinct_states": st["distinct"]}
                                            for n, st in res["mc"].items()],
           "evaluations": res["runs"], "distinct_nontrivial": res["nontrivial"].get(pid, 0),
           "rule": "one evaluation = one generated history (file operations, corruptions, invocations with script outcome and crash "
                   "point) executed on real files through the real loader, resolver and incremental::run; TLC compares every decision "
                   "with Incremental.tla's; non-trivial for %s = distinct histories exercising its antecedent" % pid,
           "exhaustive": False, "trace_events": res["events"], "real_binary_fault_histories": res.get("realbin"),
           "tlc_configurations": {n: {"distinct": st["distinct"], "generated": st["generated"], "wall_s": st["wall_s"]} for n, st in res["mc"].items()}}
    assumptions = ["in-crate crash emulation = dropping the incremental::run future at the hook point (no destructor touches files); "
                   "the real-binary leg uses abort() and SIGKILL",
                   "a crash inside the state write is emulated by truncating a complete record (bincode writes sequentially, old record already deleted)",
                   "content identities are concrete byte strings of sizes 0,1,5,1024,1025,5000 differing in the last byte; hash collisions are not modelled",
                   "which paths a resource denotes is computed by the driver from the declarations (rule of Resources.tla)"]
    return cov, "model_checking", assumptions
