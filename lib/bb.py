"""Black-box driving of the real zinoma binary (unmodified main(), hooks on -> ndjson event log).
Projects are generated from the same configurations the harness uses; every run lives in its own process
group, is stopped with SIGKILL of the group (a deadlocked zinoma ignores SIGTERM), and leftovers are found
by scanning /proc/*/environ for the run's marker variable."""
import json, os, random, shutil, signal, subprocess, time, uuid

from common import *  # noqa: F403

BODY = {
    "ok": "true",
    "nap": "sleep 0.15",
    "exit3": "exit 3",
    "exit130": "exit 130",
    "killself": "kill -KILL $$",
    "intself": "kill -INT $$",
    "slow": "exec sleep 600",
}


def yaml_project(cfg, bodies, logname="log.txt", inputs=True):
    """one project, targets t1..tn; bodies: {i: key of BODY or literal script}"""
    lines = ["targets:"]
    for i in range(1, cfg["n"] + 1):
        k = cfg["kind"][i - 1]
        lines.append("  t%d:" % i)
        deps = ["t%d" % d for d in cfg["deps"][i - 1] if d not in cfg.get("inh", [[]] * cfg["n"])[i - 1]]
        if deps or k == "a":
            lines.append("    dependencies: [%s]" % ", ".join(deps))
        if k == "a":
            continue
        body = bodies.get(i, "ok")
        body = BODY.get(body, body)
        if k == "b":
            script = "echo \"start t%d\" >> %s\n%s\necho \"end t%d\" >> %s\nmkdir -p out && echo built > out/t%d.txt" % (
                i, logname, body, i, logname, i)
            lines.append("    build: |")
        else:
            script = "echo \"start t%d $$\" >> %s\nexec sleep 600" % (i, logname)
            lines.append("    service: |")
        lines += ["      " + l for l in script.split("\n")]
        if inputs:
            lines.append("    input:")
            lines.append("      - paths: [in/t%d.txt]" % i)
            for d in cfg.get("inh", [[]] * cfg["n"])[i - 1]:
                lines.append("      - t%d.output" % d)
        if k == "b":
            lines.append("    output:")
            lines.append("      - paths: [out/t%d.txt]" % i)
    return "\n".join(lines) + "\n"


def make_project(d, cfg, bodies, inputs=True):
    shutil.rmtree(d, ignore_errors=True)
    os.makedirs(os.path.join(d, "in"))
    for i in range(1, cfg["n"] + 1):
        open(os.path.join(d, "in", "t%d.txt" % i), "w").write("version 0\n")
    open(os.path.join(d, "zinoma.yml"), "w").write(yaml_project(cfg, bodies, inputs=inputs))


def marked_pids(mark):
    out = []
    needle = ("ZV_MARK=" + mark).encode()
    for p in os.listdir("/proc"):
        if not p.isdigit():
            continue
        try:
            env = open("/proc/%s/environ" % p, "rb").read()
            if needle in env:
                st = open("/proc/%s/stat" % p).read().split(") ")[1].split()[0]
                if st != "Z":
                    out.append(int(p))
        except OSError:
            pass
    return out


def run_zinoma(d, args, trace, timeout=20, actions=(), env=None, binary=None):
    """actions: list of (when, what): when = seconds or ('event', k) = after the k-th trace line; what = 'INT' | 'TERM' |
    callable(dir). Returns dict(status, out, err, wall, timed_out, leftovers, latency)."""
    mark = uuid.uuid4().hex
    e = dict(os.environ)
    e.update({"ZINOMA_VERIF_TRACE": trace, "ZV_MARK": mark})
    if env:
        e.update(env)
    t0 = time.time()
    p = subprocess.Popen([binary or TRACED, "-p", d] + list(args), stdout=subprocess.PIPE, stderr=subprocess.PIPE, env=e,
                         start_new_session=True, cwd=d)
    pending = list(actions)
    sig_at = None
    sig_line = 0
    timed_out = False

    def trace_lines():
        try:
            return sum(1 for _ in open(trace))
        except OSError:
            return 0

    while True:
        rc = p.poll()
        if rc is not None:
            break
        now = time.time() - t0
        if now > timeout:
            timed_out = True
            break
        for a in list(pending):
            when, what = a
            if not isinstance(when, tuple):
                due = now >= when
            elif when[0] == "event":
                due = trace_lines() >= when[1]
            else:       # ("grep", text, delay): delay seconds after text first appears in the trace
                try:
                    found = when[1] in open(trace).read()
                except OSError:
                    found = False
                if found and len(when) > 2 and when[2] > 0:
                    pending[pending.index(a)] = (now + when[2], what)
                    continue
                due = found
            if due:
                pending.remove(a)
                if callable(what):
                    what(d)
                else:
                    sig_at = time.time()
                    sig_line = trace_lines()
                    try:
                        os.kill(p.pid, {"INT": signal.SIGINT, "TERM": signal.SIGTERM, "KILL": signal.SIGKILL}[what])
                    except ProcessLookupError:
                        pass
        time.sleep(0.005)
    latency = None
    if timed_out:
        try:
            os.killpg(p.pid, signal.SIGKILL)
        except ProcessLookupError:
            pass
    try:
        out, err = p.communicate(timeout=5)
    except subprocess.TimeoutExpired:
        out, err = b"", b""
    if sig_at is not None and not timed_out:
        latency = time.time() - sig_at
    time.sleep(0.03)
    left = marked_pids(mark)
    left2 = []
    if left:
        time.sleep(0.2)
        left2 = [x for x in marked_pids(mark) if x in left]
        for x in marked_pids(mark):
            try:
                os.kill(x, signal.SIGKILL)
            except ProcessLookupError:
                pass
    return {"status": p.returncode, "out": out.decode(errors="replace"), "err": err.decode(errors="replace"),
            "wall": time.time() - t0, "timed_out": timed_out, "leftovers": left2, "latency": latency,
            "signalled": sig_at is not None, "sig_line": sig_line}


def append_trace(trace, rec, first=False):
    line = json.dumps(rec) + "\n"
    if first:
        old = open(trace).read() if os.path.exists(trace) else ""
        open(trace, "w").write(line + old)
    else:
        open(trace, "a").write(line)


# ------------------------------------------------------------------------------------------------ engine scenarios

def engine_scenarios(tier, seed):
    import gen_configs
    rng = random.Random(seed + 77)
    quick = tier != "thorough"
    fams = gen_configs.families()
    sc = []

    def add(name, cfg, bodies=None, actions=(), args=None, expect=None, timeout=20):
        c = gen_configs.finish(dict(cfg), len(sc) + 1)
        c["id"] = "bb%d_%s" % (len(sc) + 1, name)
        sc.append({"name": name, "cfg": c, "bodies": bodies or {}, "actions": list(actions),
                   "args": args or ["t%d" % r for r in c["roots"]], "expect": expect or {}, "timeout": timeout})

    def service_behind(f, t):
        return f["kind"][t - 1] == "s" or (f["kind"][t - 1] == "a" and any(service_behind(f, d) for d in f["deps"][t - 1]))

    for f in fams:
        keep = any(service_behind(f, r) for r in f["roots"])
        add("plain_" + f["family"], f, {i: rng.choice(["ok", "nap"]) for i in range(1, f["n"] + 1)},
            actions=[(("grep", "root_wait_signal", 0.3), rng.choice(["INT", "TERM"]))] if keep else [],
            expect={"signal": True} if keep else {})
    # failures of every flavour at every non-aggregate position of a few graphs
    for f in [x for x in fams if x["family"] in ("diamond_builds", "build_over_svc", "two_roots", "svc_chain", "agg_over_svc")]:
        for i in range(1, f["n"] + 1):
            if f["kind"][i - 1] != "b":
                continue
            for flavour in (["exit3", "exit130", "killself", "intself"] if not quick else [rng.choice(["exit3", "exit130"]), rng.choice(["killself", "intself"])]):
                bodies = {j: "nap" for j in range(1, f["n"] + 1)}
                bodies[i] = flavour
                add("fail_%s_t%d_%s" % (f["family"], i, flavour), f, bodies, expect={"fails": [i]})
    # signals at many instants of runs with never-ending scripts and services
    for f in [x for x in fams if x["family"] in ("diamond_builds", "build_over_svc", "agg_over_svc", "two_roots", "svc_and_build_roots")]:
        builds = [i for i in range(1, f["n"] + 1) if f["kind"][i - 1] == "b"]
        for rep in range(3 if quick else 12):
            slow = rng.choice(builds)
            bodies = {j: "ok" for j in range(1, f["n"] + 1)}
            bodies[slow] = "slow"
            k = rng.randint(1, 40)
            add("sig_%s_%d" % (f["family"], rep), f, bodies, actions=[(("event", k), rng.choice(["INT", "TERM"]))],
                expect={"signal": True}, timeout=12)
    # watch mode: signal while watching
    for f in [x for x in fams if x["family"] in ("diamond_builds", "build_over_svc")]:
        for rep in range(2 if quick else 6):
            add("watchsig_%s_%d" % (f["family"], rep), dict(f, watch=True), {}, actions=[(rng.uniform(0.3, 1.2), rng.choice(["INT", "TERM"]))],
                args=["--watch"] + ["t%d" % r for r in f["roots"]], expect={"signal": True}, timeout=10)
    # scale (C04 "graphs of any depth and width", queues filling up): only start/finish/exit are validated for these
    def scale(name, kinds, deps, roots):
        c = gen_configs.finish({"n": len(kinds), "kind": kinds, "deps": deps, "roots": roots}, 800 + len(sc))
        c["id"] = "bbs_%s" % name
        c["scale"] = True
        sc.append({"name": "scale_" + name, "cfg": c, "bodies": {}, "actions": [], "args": ["t%d" % r for r in roots], "expect": {}, "timeout": 60})
    w = 400
    scale("fanin_%d" % w, ["b"] + ["a"] * w + ["a"], [[]] + [[1]] * w + [list(range(2, w + 2))], [w + 2])
    scale("chain_150", ["b"] * 150, [[]] + [[i] for i in range(1, 150)], [150])
    scale("fanout_150", ["b"] * 150 + ["a"], [[] for _ in range(150)] + [list(range(1, 151))], [151])
    # the same wide graph with a signal after 4 s: it has long finished by then unless relay and actors are wedged,
    # in which case the signal must still be honoured (C10)
    sc[-3] = dict(sc[-3])
    c2 = dict(sc[-3]["cfg"], id="bbs_fanin_sig")
    sc.append(dict(sc[-3], name="scale_fanin_sig", cfg=c2, actions=[(4.0, "TERM")], timeout=25))
    if not quick:
        scale("lattice", ["b"] * 64, [[j for j in (i - 8, i - 1) if j >= 1 and (j != i - 1 or (i - 1) % 8 != 0)] for i in range(1, 65)], [64])
        scale("roots_50", ["b"] * 50, [[] for _ in range(50)], list(range(1, 51)))
    # watch mode on real inotify: clean-tree start, edits while building, convergence, no rebuild loop
    for rep_ in range(12 if quick else 48):
        sc.append({"type": "watchconv", "name": "watchconv_%d" % rep_, "clean_tree": rep_ % 2 == 0, "edits": rng.choice([1, 2, 2, 3]),
                   "variant": ["plain", "filters", "failfix"][rep_ % 3],
                   "gaps": [rng.choice([0.03, 0.08, 0.12, 0.18, 0.3, 0.45]) for _ in range(3)], "during_first_build": rep_ % 4 < 2,
                   "cfg": dict(gen_configs.finish({"n": 2, "kind": ["b", "b"], "deps": [[], [1]], "roots": [2], "watch": True}, 900 + rep_),
                               id="bbw%d" % rep_, inh=[[], [1]]),
                   "bodies": {}, "actions": []})
    # slow command resources must not delay unrelated targets, even on a runtime with two worker threads (C17)
    sc.append({"type": "probes", "name": "slow_probes_do_not_delay_others",
               "cfg": dict(gen_configs.finish({"n": 4, "kind": ["b", "b", "b", "b"], "deps": [[], [], [], [3]], "roots": [1, 2, 4]}, 995),
                           id="bbprobes", scale=True), "bodies": {}, "actions": []})
    # watch mode: setting up the watcher of a later root fails (a 300-character path component): zinoma must exit with an
    # error and leave nothing behind of the roots it had already started
    sc.append({"type": "watchfail", "name": "watch_root_setup_failure",
               "cfg": dict(gen_configs.finish({"n": 4, "kind": ["s", "b", "b", "b"], "deps": [[], [], [], []], "roots": [1, 2, 3, 4], "watch": True}, 990),
                           id="bbwf"), "bodies": {}, "actions": []})
    return sc


PROBES_YAML = """targets:
  t1:
    input:
      - cmd_stdout: sleep 6; echo one
    build: 'true'
  t2:
    input:
      - cmd_stdout: sleep 6; echo two
    build: 'true'
  t3:
    build: 'true'
  t4:
    dependencies: [t3]
    build: 'true'
"""


def run_probes_scenario(s):
    d = os.path.join(CACHE, "scratch", "bb_" + s["cfg"]["id"])
    shutil.rmtree(d, ignore_errors=True)
    os.makedirs(d)
    open(os.path.join(d, "zinoma.yml"), "w").write(PROBES_YAML)
    trace = d + ".ndjson"
    if os.path.exists(trace):
        os.unlink(trace)
    t0 = time.time()
    seen = {}

    def watch_t4(_d):
        # wait until the independent chain has run (bounded by the probes themselves)
        while time.time() - t0 < 20:
            try:
                if any('"build_spawned"' in l and '"t":"t4"' in l for l in open(trace)):
                    seen["t4"] = time.time() - t0
                    return
            except OSError:
                pass
            time.sleep(0.02)

    r = run_zinoma(d, ["t1", "t2", "t4"], trace, timeout=60, actions=[(0.05, watch_t4)], env={"ASYNC_STD_THREAD_COUNT": "2"})
    lines = [l for l in open(trace).read().splitlines() if l.strip()] if os.path.exists(trace) else []
    raw = [json.dumps({"ev": "cfg", "t": s["cfg"]["id"], "cfg": s["cfg"]})]
    raw += [l for l in lines if '"build_spawned"' in l or '"build_reaped"' in l or '"wake_build"' in l or '"build_begin"' in l]
    raw.append(json.dumps({"ev": "h_indep", "t": "", "ms": int(seen.get("t4", 99) * 1000)}))
    if r["timed_out"]:
        raw.append(json.dumps({"ev": "h_stall", "t": ""}))
    else:
        raw.append(json.dumps({"ev": "h_proc", "t": "", "alive": len(r["leftovers"])}))
    shutil.rmtree(d, ignore_errors=True)
    if os.path.exists(trace):
        os.unlink(trace)
    return {"scenario": s, "raw": raw, "status": r["status"], "timed_out": r["timed_out"], "latency": r["latency"],
            "leftovers": r["leftovers"], "stderr_tail": r["err"][-600:], "names_ok": True}


WATCHFAIL_YAML = """targets:
  t1:
    service: exec sleep 600
  t2:
    build: exec sleep 600
  t3:
    input:
      - paths: [bigtree]
    build: 'true'
  t4:
    input:
      - paths: ['%s/x']
    build: 'true'
"""


def run_watchfail_scenario(s):
    d = os.path.join(CACHE, "scratch", "bb_" + s["cfg"]["id"])
    shutil.rmtree(d, ignore_errors=True)
    os.makedirs(d)
    open(os.path.join(d, "zinoma.yml"), "w").write(WATCHFAIL_YAML % ("n" * 300))
    # setting up t3's recursive watch takes a while: the roots requested before it have started their shells by the time
    # the set-up of t4 fails
    for i in range(40):
        for j in range(40):
            os.makedirs(os.path.join(d, "bigtree", "d%d" % i, "e%d" % j))
    trace = d + ".ndjson"
    if os.path.exists(trace):
        os.unlink(trace)
    r = run_zinoma(d, ["--watch", "t1", "t2", "t3", "t4"], trace, timeout=25)
    lines = [l for l in open(trace).read().splitlines() if l.strip()] if os.path.exists(trace) else []
    # only the process-level facts are folded (the engine never reached its loop)
    raw = [json.dumps({"ev": "cfg", "t": s["cfg"]["id"], "cfg": dict(s["cfg"], scale=True)})]
    raw += [l for l in lines if '"svc_st' in l or '"build_spawned"' in l or '"build_reaped"' in l]
    if r["timed_out"]:
        raw.append(json.dumps({"ev": "h_stall", "t": ""}))
    else:
        raw.append(json.dumps({"ev": "h_proc", "t": "", "alive": len(r["leftovers"])}))
    shutil.rmtree(d, ignore_errors=True)
    if os.path.exists(trace):
        os.unlink(trace)
    return {"scenario": s, "raw": raw, "status": r["status"], "timed_out": r["timed_out"], "latency": r["latency"],
            "leftovers": r["leftovers"], "stderr_tail": r["err"][-600:], "names_ok": True}


WATCH_YAML = """targets:
  t1:
    input:
      - paths: [in_p.txt]
    build: |
      v=$(cat in_p.txt)
      sleep 0.25
      mkdir -p gen
      echo $v > gen/p.out
    output:
      - paths: [gen]
  t2:
    input:
      - t1.output
    build: cat gen/p.out > c.out
    output:
      - paths: [c.out]
"""


# the same, with the producer's input declared as one directory under two extension filters (the edited file matches the
# second one only), and a producer that fails on contents starting with "bad" (a broken edit fixed while its build runs)
WATCH_YAML_FILTERS = WATCH_YAML.replace("""      - paths: [in_p.txt]
""", """      - paths: [.]
        extensions: [md]
      - paths: [.]
        extensions: [txt]
""").replace("      sleep 0.25\n", "      sleep 0.25\n      case $v in bad*) exit 1;; esac\n")


def unexplained_builds(lines, nconv):
    """script starts after the final version reached c.out that nothing explains, judged on zinoma's own event order (no clocks):
    a start of t1 is explained by a watcher report about in_p.txt since the input state of its previous build was captured
    (an edit that lands between capture and the script's read is built by that script AND rightly causes one more run - it
    happens when the machine is loaded); a start of t2 by a build of t1 that finished since t2's previous capture. What a
    rebuild loop (reacting to one's own outputs or to .zinoma) produces is never explained this way."""
    nspawn = 0
    why = {"t1": False, "t2": False}          # something explaining a run of t happened since t's last capture
    explained = {"t1": False, "t2": False}    # ... as of the capture of the build now being started
    bad = 0
    for l in lines:
        try:
            e = json.loads(l)
        except ValueError:
            continue
        ev, t = e.get("ev"), e.get("t")
        if ev == "watch_event" and t == "t1" and e.get("relevant") and any(str(p).endswith("in_p.txt") for p in e.get("paths", [])):
            why["t1"] = True
        elif ev == "build_reaped" and t == "t1" and e.get("how") == "ok":
            why["t2"] = True
        elif ev == "incr_captured" and t in why:
            explained[t] = why[t]
            why[t] = False
        elif ev == "build_spawned" and t in why:
            nspawn += 1
            if nspawn > nconv and not explained[t]:
                bad += 1
    return bad


def run_watch_scenario(s):
    d = os.path.join(CACHE, "scratch", "bb_" + s["cfg"]["id"])
    shutil.rmtree(d, ignore_errors=True)
    os.makedirs(d)
    variant = s.get("variant", "plain")
    open(os.path.join(d, "zinoma.yml"), "w").write(WATCH_YAML if variant == "plain" else WATCH_YAML_FILTERS)
    open(os.path.join(d, "readme.md"), "w").write("notes\n")
    open(os.path.join(d, "in_p.txt"), "w").write("v0\n")
    if not s["clean_tree"]:
        os.makedirs(os.path.join(d, "gen"))
        open(os.path.join(d, "gen", "p.out"), "w").write("stale\n")
    trace = d + ".ndjson"
    if os.path.exists(trace):
        os.unlink(trace)
    state = {"ver": 0, "phase": 0, "t_conv": None, "builds_at_conv": None, "builds_end": None, "converged": False}

    def read(p):
        try:
            return open(os.path.join(d, p)).read().strip()
        except OSError:
            return None

    def nbuilds():
        try:
            return sum(1 for l in open(trace) if '"build_spawned"' in l)
        except OSError:
            return 0

    def edit(_d):
        state["ver"] += 1
        open(os.path.join(d, "in_p.txt"), "w").write("v%d\n" % state["ver"])

    def bad_edit(_d):
        open(os.path.join(d, "in_p.txt"), "w").write("bad%d\n" % state["ver"])

    # the action list of run_zinoma is time based; build it from the scenario
    acts = []
    t = 0.15 if s["during_first_build"] else 1.2
    for k in range(s["edits"]):
        if variant == "failfix" and k == s["edits"] - 1:
            # a broken edit, repaired while the (failing) build it caused is still running
            acts.append((t, bad_edit))
            t += 0.12
        acts.append((t, edit))
        t += s["gaps"][k % len(s["gaps"])]

    def settle(_d):
        # wait (bounded) for the last change to arrive in c.out, then for one idle second
        deadline = time.time() + 20
        while time.time() < deadline:
            if read("c.out") == "v%d" % state["ver"]:
                state["converged"] = True
                break
            time.sleep(0.05)
        state["builds_at_conv"] = nbuilds()
        time.sleep(1.0)
        state["builds_end"] = nbuilds()
        state["final_out"] = read("c.out")

    acts.append((t + 0.3, settle))
    acts.append((t + 0.35, "TERM"))
    r = run_zinoma(d, ["--watch", "t2"], trace, timeout=45, actions=acts)
    lines = [l for l in open(trace).read().splitlines() if l.strip()] if os.path.exists(trace) else []
    raw = [json.dumps({"ev": "cfg", "t": s["cfg"]["id"], "cfg": s["cfg"]})] + lines
    if r["signalled"]:
        raw.insert(1 + min(r["sig_line"], len(lines)), json.dumps({"ev": "h_signal", "t": ""}))
    early = not r["signalled"] and not r["timed_out"]
    raw.append(json.dumps({"ev": "h_watchrun", "t": "", "early_exit": early, "in_ver": state["ver"],
                           "out_ver": int(state.get("final_out")[1:]) if (state.get("final_out") or "").startswith("v") else -1,
                           "extra_builds": unexplained_builds(lines, state["builds_at_conv"] or 0)}))
    if r["timed_out"]:
        raw.append(json.dumps({"ev": "h_stall", "t": ""}))
    else:
        raw.append(json.dumps({"ev": "h_proc", "t": "", "alive": len(r["leftovers"])}))
        raw.append(json.dumps({"ev": "h_exit", "t": "", "status": 0 if r["status"] == 0 else 1}))
    shutil.rmtree(d, ignore_errors=True)
    if os.path.exists(trace):
        os.unlink(trace)
    return {"scenario": s, "raw": raw, "status": r["status"], "timed_out": r["timed_out"], "latency": r["latency"],
            "leftovers": r["leftovers"], "stderr_tail": r["err"][-600:], "names_ok": True}


def run_engine_scenario(s):
    if s.get("type") == "watchconv":
        return run_watch_scenario(s)
    if s.get("type") == "watchfail":
        return run_watchfail_scenario(s)
    if s.get("type") == "probes":
        return run_probes_scenario(s)
    d = os.path.join(CACHE, "scratch", "bb_" + s["cfg"]["id"])
    make_project(d, s["cfg"], s["bodies"])
    trace = d + ".ndjson"
    if os.path.exists(trace):
        os.unlink(trace)
    r = run_zinoma(d, s["args"], trace, timeout=s["timeout"], actions=s["actions"])
    lines = []
    if os.path.exists(trace):
        lines = [l for l in open(trace).read().splitlines() if l.strip()]
    sig = any(l.find('"ev":"root_loop_exit"') >= 0 and l.find('"signalled":true') >= 0 for l in lines) or bool(s["expect"].get("signal"))
    raw = [json.dumps({"ev": "cfg", "t": s["cfg"]["id"], "cfg": s["cfg"]})]
    for l in lines:
        raw.append(l)
    if r["signalled"]:
        raw.insert(1 + min(r["sig_line"], len(lines)), json.dumps({"ev": "h_signal", "t": ""}))
    if r["timed_out"]:
        raw.append(json.dumps({"ev": "h_stall", "t": ""}))
    else:
        raw.append(json.dumps({"ev": "h_proc", "t": "", "alive": len(r["leftovers"])}))
        raw.append(json.dumps({"ev": "h_latency", "t": "", "ms": int((r["latency"] or 0) * 1000)}))
        raw.append(json.dumps({"ev": "h_exit", "t": "", "status": 0 if r["status"] == 0 else 1}))
    shutil.rmtree(d, ignore_errors=True)
    if os.path.exists(trace):
        os.unlink(trace)
    names_ok = True
    for i in s["expect"].get("fails", []):
        if r["status"] != 0 and ("t%d" % i) not in r["err"]:
            names_ok = False
    if not r["timed_out"]:
        raw.insert(len(raw) - 1, json.dumps({"ev": "h_names", "t": "", "ok": names_ok}))
    return {"scenario": s, "raw": raw, "status": r["status"], "timed_out": r["timed_out"], "latency": r["latency"],
            "leftovers": r["leftovers"], "stderr_tail": r["err"][-600:], "names_ok": names_ok}
