"""Shared plumbing of the /verif checks: paths, hashing, builds, TLC invocation, evidence, findings."""
import fcntl, hashlib, json, os, re, subprocess, sys, time

VERIF = os.path.dirname(os.path.dirname(os.path.abspath(__file__)))
REPO = os.environ.get("VERIF_REPO", "/repo")     # experiments may point the checks at a scratch worktree
BUILD = os.path.join(VERIF, ".build")
CACHE = os.path.join(VERIF, ".cache")
SPEC = os.path.join(VERIF, "spec")
ZV = os.path.join(BUILD, "harness", "debug", "zv")
TRACED = os.path.join(BUILD, "traced", "debug", "zinoma")
NCPU = os.cpu_count() or 4

RESULTS = os.environ.get("VERIF_RESULTS", os.path.join(CACHE, "results"))
for d in (BUILD, CACHE, os.path.join(CACHE, "tlc"), os.path.join(CACHE, "jobs"), os.path.join(CACHE, "scratch"),
          RESULTS, os.path.join(VERIF, "evidence"), os.path.join(VERIF, "replays")):
    os.makedirs(d, exist_ok=True)


class ToolError(Exception):
    pass


def purge_jobs(max_age_s=5400):
    """job files (harness inputs, raw logs, projected traces) are only needed while their suite runs"""
    now = time.time()
    jd = os.path.join(CACHE, "jobs")
    for fn in os.listdir(jd):
        fp = os.path.join(jd, fn)
        try:
            if now - os.path.getmtime(fp) > max_age_s:
                os.unlink(fp)
        except OSError:
            pass


    td = os.path.join(CACHE, "tlc")
    for fn in os.listdir(td):          # state directories left behind by TLC runs that were killed
        fp = os.path.join(td, fn)
        try:
            if os.path.isdir(fp) and now - os.path.getmtime(fp) > 3 * 3600:
                import shutil
                shutil.rmtree(fp, ignore_errors=True)
        except OSError:
            pass


purge_jobs()


def log(*a):
    print("[check]", *a, file=sys.stderr, flush=True)


def tree_hash(paths, exts=None):
    h = hashlib.sha256()
    for root in paths:
        if os.path.isfile(root):
            h.update(os.path.basename(root).encode()); h.update(open(root, "rb").read()); continue
        for dp, dns, fns in sorted(os.walk(root)):
            dns[:] = sorted(d for d in dns if d not in ("target", ".git", ".zinoma", "__pycache__", ".build", ".cache"))
            for fn in sorted(fns):
                if exts and not fn.endswith(tuple(exts)):
                    continue
                p = os.path.join(dp, fn)
                h.update(os.path.relpath(p, root).encode())
                try:
                    h.update(open(p, "rb").read())
                except OSError:
                    pass
    return h.hexdigest()[:20]


def repo_hash():
    return tree_hash([os.path.join(REPO, "src"), os.path.join(REPO, "Cargo.toml"), os.path.join(REPO, "Cargo.lock"),
                      os.path.join(REPO, "build")])


def verif_hash():
    return tree_hash([SPEC, os.path.join(VERIF, "harness", "src"), os.path.join(VERIF, "harness", "Cargo.toml"),
                      os.path.join(VERIF, "lib"), os.path.join(VERIF, "tools"), os.path.join(VERIF, "check"),
                      os.path.join(VERIF, "known_findings.json")])


class Lock:
    def __init__(self, name):
        self.path = os.path.join(CACHE, name + ".lock")

    def __enter__(self):
        self.f = open(self.path, "w")
        fcntl.flock(self.f, fcntl.LOCK_EX)
        return self

    def __exit__(self, *a):
        fcntl.flock(self.f, fcntl.LOCK_UN)
        self.f.close()


def run(cmd, cwd=None, env=None, timeout=None, check=False):
    """Run a command in its own process group, output captured through a file (not a pipe: a process the command leaves
    behind - e.g. a service shell that a changed zinoma failed to kill - would keep a pipe open and block us), and kill
    whatever is left of the group afterwards."""
    import signal, tempfile
    e = dict(os.environ)
    if env:
        e.update(env)
    with tempfile.TemporaryFile(dir=os.path.join(CACHE, "scratch")) as tf:
        p = subprocess.Popen(cmd, cwd=cwd, env=e, stdout=tf, stderr=subprocess.STDOUT, stdin=subprocess.DEVNULL, start_new_session=True)
        try:
            rc = p.wait(timeout=timeout)
        except subprocess.TimeoutExpired:
            rc = 124
        try:
            os.killpg(p.pid, signal.SIGKILL)
        except (ProcessLookupError, PermissionError):
            pass
        try:
            p.wait(timeout=10)
        except subprocess.TimeoutExpired:
            pass
        tf.seek(0)
        out = tf.read().decode(errors="replace")
    if check and rc != 0:
        raise ToolError("command failed (%d): %s\n%s" % (rc, " ".join(cmd), out[-3000:]))
    return rc, out


ZV_CAP1 = os.path.join(BUILD, "harness_cap1", "debug", "zv")


def build_harness(cap=None):
    """zv mounts /repo/src by #[path]: cargo rebuilds it whenever the working tree changed.
    cap=1 builds the variant whose DEFAULT_CHANNEL_CAP (actor inbox capacity) is 1, into its own target directory."""
    with Lock("cargo-harness"):
        t0 = time.time()
        import shutil
        hdir = os.path.join(VERIF, "harness")
        lock = os.path.join(hdir, "Cargo.lock")
        if not os.path.exists(lock):
            shutil.copy(os.path.join(REPO, "Cargo.lock"), lock)
        if REPO != "/repo":
            # same harness sources, mounted on another checkout
            alt = os.path.join(BUILD, "alt_harness")
            shutil.rmtree(alt, ignore_errors=True)
            shutil.copytree(hdir, alt, ignore=shutil.ignore_patterns("target"))
            mp = os.path.join(alt, "src", "main.rs")
            text = open(mp).read().replace('"/repo/src/', '"%s/src/' % REPO)
            open(mp, "w").write(text)
            cfgp = os.path.join(alt, ".cargo", "config.toml")
            text = open(cfgp).read().replace('"../.build/harness"', '"%s"' % os.path.join(BUILD, "harness"))
            open(cfgp, "w").write(text)
            hdir = alt
        cmd = ["cargo", "build", "--offline"]
        env = {"CARGO_NET_OFFLINE": "true"}
        if cap:
            cmd += ["--target-dir", os.path.join(BUILD, "harness_cap%d" % cap)]
            env["ZV_CAP"] = str(cap)
        rc, out = run(cmd, cwd=hdir, env=env, timeout=1500)
        if rc != 0:
            raise ToolError("harness build failed:\n" + out[-4000:])
        log("harness built in %.0fs" % (time.time() - t0))


def build_traced():
    """the unmodified main() of /repo's working tree with hooks on"""
    with Lock("cargo-traced"):
        t0 = time.time()
        rc, out = run(["cargo", "build", "--offline", "--target-dir", os.path.join(BUILD, "traced")], cwd=REPO,
                      env={"CARGO_NET_OFFLINE": "true", "RUSTFLAGS": "--cfg zinoma_verif"}, timeout=1500)
        if rc != 0:
            raise ToolError("traced binary build failed:\n" + out[-4000:])
        log("traced binary built in %.0fs" % (time.time() - t0))


TLC_NOISE = re.compile(r"^(Picked|TLC2|Running|Parsing|Semantic|Starting|Linting|\(C\)|Warning: Please|Implied-temporal|"
                       r"Computing initial|Computed \d+ initial)")


def tlc(spec, cfg, workers=8, env=None, timeout=3600, extra=(), metaname=None, java_opts=""):
    """returns (rc, output). spec/cfg are file names inside SPEC (cfg may be an absolute path)."""
    meta = os.path.join(CACHE, "tlc", metaname or ("m%d_%d" % (os.getpid(), int(time.time() * 1000) % 100000000)))
    e = {"JAVA_TOOL_OPTIONS": java_opts}
    if env:
        e.update(env)
    cmd = ["timeout", "-k", "5", str(timeout), "tlc", "-workers", str(workers), "-metadir", meta, "-cleanup",
           "-noGenerateSpecTE", "-difftrace", "-config", cfg] + list(extra) + [spec]
    rc, out = run(cmd, cwd=SPEC, env=e)
    subprocess.run(["rm", "-rf", meta])
    return rc, out


def tlc_stats(out):
    m = re.search(r"(\d+) states generated, (\d+) distinct states found", out)
    st = {"generated": int(m.group(1)), "distinct": int(m.group(2))} if m else {"generated": 0, "distinct": 0}
    m = re.search(r"depth of the complete state graph search is (\d+)", out)
    if m:
        st["depth"] = int(m.group(1))
    st["ok"] = "Model checking completed. No error has been found." in out
    return st


def write_cfg(name, consts, invariants=(), properties=(), spec="Spec", deadlock=True, constraint=None, extra=""):
    p = os.path.join(CACHE, "tlc", name + ".cfg")
    with open(p, "w") as f:
        f.write("SPECIFICATION %s\nCONSTANTS\n" % spec)
        for k, v in consts.items():
            f.write("  %s = %s\n" % (k, "TRUE" if v is True else "FALSE" if v is False else v))
        if invariants:
            f.write("INVARIANTS\n  " + " ".join(invariants) + "\n")
        if properties:
            f.write("PROPERTIES\n  " + " ".join(properties) + "\n")
        if constraint:
            f.write("CONSTRAINT %s\n" % constraint)
        f.write("CHECK_DEADLOCK %s\n" % ("TRUE" if deadlock else "FALSE"))
        f.write(extra)
    return p


def load_findings():
    p = os.path.join(VERIF, "known_findings.json")
    if os.path.exists(p):
        return json.load(open(p))
    return []


def write_evidence(pid, tier, seed, level, coverage, wall, violations, assumptions):
    ev = {"property_id": pid, "tier": tier, "seed": seed, "level": level, "coverage": coverage,
          "assumptions": assumptions, "wall_s": round(wall, 1), "violations": violations}
    with open(os.path.join(VERIF, "evidence", pid + ".json"), "w") as f:
        json.dump(ev, f, indent=1)
