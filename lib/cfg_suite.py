"""Configuration suite (properties C09 C14 C19; the resolver half of C08 and C13).
 1. TLC model-checks Resolver.tla and Loader.tla (the algorithms of ir.rs / yaml/mod.rs as step machines, on every digraph
    / import arrangement up to the bound, imports iterated in every order) against ConfigRules.tla;
 2. generated cases (graphs over two projects, import arrangements, document structures, byte-level mutants) are rendered
    to zinoma.yml files and answered by zinoma's own loader + resolver (zv config) and by the real binary;
 3. TLC folds the answers through ConfigObs.tla, which compares them with ConfigRules.tla."""
import concurrent.futures as cf
import hashlib, itertools, json, os, random, re, time

from common import *  # noqa: F403

PROPS = ["C09", "C14", "C19"]
VIOL_RE = re.compile(r'^"?MONITOR-VIOLATION (C\d+) @(\d+) (.*?)"?$')

# ---------------------------------------------------------------------------------------------- resolve cases

def render_ref(r):
    return (r["q"] + "::" if r["q"] else "") + r["n"]


def pdir(pkey, root):
    # the root project at the top, S imported by the root from sub/, T imported only by S from sub/deep/
    return "" if pkey == root else ("sub/deep" if pkey == "T" else "sub")


def pj(d, f):
    return f if not d else d + "/" + f


def make_graph(root, targets, requested, third=False):
    """targets: list of dict(proj, name, kind, deps[refs], outs[refs])"""
    ts = []
    for t in targets:
        d = pdir(t["proj"], root)
        tid = t["proj"] + "::" + t["name"]
        own_in = ["F:" + pj(d, "in_" + t["name"]) + "|"] if t["kind"] != "a" else []
        own_out = ["F:" + pj(d, "out_" + t["name"]) + "|.o", "C:" + d + "|echo " + t["name"]] if (t["kind"] == "b" and not t.get("noout")) else []
        ts.append(dict(t, id=tid, ownIn=own_in, ownOut=own_out, bad=t.get("bad", [])))
    return {"root": root, "pkeys": sorted({root, "S"} | ({"T"} if third else set())), "targets": ts, "requested": requested}


def render_graph(g):
    root = g["root"]
    files = {}
    for pk in g["pkeys"]:
        d = pdir(pk, root)
        lines = []
        if pk != "_":
            lines.append("name: %s" % pk)
        if pk == root:
            lines.append("imports:\n  S: sub")
        if pk == "S" and "T" in g["pkeys"]:
            lines.append("imports:\n  T: deep")
        lines.append("targets:")
        mine = [t for t in g["targets"] if t["proj"] == pk]
        if not mine:
            lines[-1] = "targets: {}"
        for t in mine:
            lines.append("  %s:" % t["name"])
            deps = "[" + ", ".join(render_ref(r) for r in t["deps"]) + "]"
            if t["kind"] == "a":
                lines.append("    dependencies: %s" % deps)
                continue
            if t["deps"]:
                lines.append("    dependencies: %s" % deps)
            lines.append("    %s: 'true'" % ("build" if t["kind"] == "b" else "service"))
            lines.append("    input:")
            lines.append("      - paths: [in_%s]" % t["name"])
            for r in t["outs"]:
                lines.append("      - %s.output" % render_ref(r))
            for b in t.get("bad", []):
                lines.append("      - '%s'" % b)
            if t["kind"] == "b" and not t.get("noout"):
                lines.append("    output:")
                lines.append("      - paths: [out_%s]\n        extensions: [o]" % t["name"])
                lines.append("      - cmd_stdout: echo %s" % t["name"])
        files[pj(d, "zinoma.yml")] = "\n".join(lines) + "\n"
    return files


def gen_resolve_cases(rng, n, exhaustive_small=True):
    cases = []
    names = ["a", "b"]

    def pool(root):
        p = [{"q": "", "n": "a"}, {"q": "", "n": "b"}, {"q": "S", "n": "a"}, {"q": "Z", "n": "a"}, {"q": "", "n": "c"},
             {"q": "S", "n": "b"}, {"q": "T", "n": "a"}, {"q": "", "n": "d"}, {"q": "T", "n": "b"}]
        if root != "_":
            p.append({"q": root, "n": "a"})
        return p

    for k in range(n):
        root = rng.choice(["_", "R"])
        # a third project, imported by S only, in a third of the cases; a larger root project in a third
        third = rng.random() < 0.35
        universe = [(root, "a"), (root, "b"), ("S", "a"), ("S", "b")]
        if rng.random() < 0.35:
            universe.append((root, "d"))
        if third:
            universe += [("T", "a"), ("T", "b")]
        chosen = [u for u in universe if rng.random() < 0.75] or [universe[0]]
        have = set(chosen)
        P = pool(root)
        ts = []
        # half of the cases are biased towards VALID graphs (references mostly forwards in a random order, .output mostly of
        # build targets), so that deep acyclic shapes - diamonds, re-referenced subtrees - are common, not only refusals
        dag = rng.random() < 0.5
        rng.shuffle(chosen)
        kinds = {u: rng.choice("bbbsa" if dag else "bbsa") for u in chosen}
        pos = {u: i for i, u in enumerate(chosen)}
        for (p, nm) in chosen:
            kind = kinds[(p, nm)]
            nd = rng.choice([0, 1, 1, 2, 3] if dag else [0, 0, 1, 1, 2, 3])
            no = rng.choice([0, 0, 1]) if kind != "a" else 0
            tgt = [(r["q"] or p, r["n"]) for r in P]
            if dag:
                w = [(8 if pos[x] > pos[(p, nm)] else 0.03) if x in have else 0.03 for x in tgt]
                wo = [wi if (x in have and kinds[x] == "b") else 0.03 for wi, x in zip(w, tgt)]
                if max(w) < 1:
                    nd = rng.choice([0, 0, 0, 1])
                if max(wo) < 1:
                    no = rng.choice([0, 0, 0, 1]) if kind != "a" else 0
            else:
                w = wo = [6 if x in have else 1 for x in tgt]
            deps = [dict(x) for x in rng.choices(P, weights=w, k=nd)]
            outs = [dict(x) for x in rng.choices(P, weights=wo, k=no)]
            bad = [rng.choice(["S::a::b.output", "a::b::c.output", ".output", "a b.output", "a.outputs", "S::.output", "::a.output",
                               "a.output.output", "-a.output", "R::S::a.output"])] if (kind != "a" and rng.random() < (0.01 if dag else 0.06)) else []
            ts.append({"proj": p, "name": nm, "kind": kind, "deps": deps, "outs": outs, "noout": kind == "b" and rng.random() < 0.25, "bad": bad})
        cli = []
        for t in ts:
            disp = t["name"] if t["proj"] == "_" else t["proj"] + "::" + t["name"]
            cli.append(disp)
            if t["proj"] == root:
                cli.append(t["name"])
        if dag and rng.random() < 0.6:          # request the sources of the order: the whole graph is in the closure
            cli = cli[:2]
        req = rng.sample(cli, min(len(cli), rng.choice([1, 1, 2, 3])))
        if rng.random() < 0.05:
            req.append(rng.choice(["nope", "S::zz", "Z::a", "a::b::c"]))
        g = make_graph(root, ts, req, third)
        cases.append({"id": "r%d" % k, "kindcase": "resolve", "m": g, "files": render_graph(g), "requested": req, "reps": 3})
    return cases


# ---------------------------------------------------------------------------------------------- load cases

DIRPATH = {"d0": "", "d1": "p1", "d2": "p1/p2", "gone": "missing_dir"}
NAME = {"": None, "x": "x", "y": "y", "!bad": "::bad"}


def gen_load_cases(rng, n):
    cases = []
    for k in range(n):
        dirs = []
        for d in ("d0", "d1", "d2"):
            exists = True if d == "d0" else rng.random() < 0.85
            yamlok = exists and rng.random() < 0.92
            pname = rng.choice(["", "x", "x", "y", "y", "!bad"]) if yamlok else ""
            imps = []
            if yamlok:
                keys = rng.sample(["x", "y"], rng.choice([0, 1, 1, 2]))
                for key in keys:
                    imps.append({"key": key, "dir": rng.choice(["d0", "d1", "d1", "d2", "d2", "gone"])})
            dirs.append({"key": d, "exists": exists, "yamlok": yamlok, "pname": pname, "imports": imps})
        files = {}
        for d in dirs:
            if not d["exists"]:
                continue
            path = pj(DIRPATH[d["key"]], "zinoma.yml")
            if not d["yamlok"]:
                files[path] = "targets: [\n"
                continue
            lines = []
            if NAME[d["pname"]] is not None:
                lines.append("name: '%s'" % NAME[d["pname"]])
            if d["imports"]:
                lines.append("imports:")
                for i in d["imports"]:
                    rel = os.path.relpath("/" + DIRPATH[i["dir"]], "/" + DIRPATH[d["key"]])
                    lines.append("  %s: %s" % (i["key"], rel))
            lines.append("targets:\n  t:\n    build: 'true'")
            files[path] = "\n".join(lines) + "\n"
        m = {"root": "d0", "dirs": dirs}
        cases.append({"id": "l%d" % k, "kindcase": "load", "m": m, "files": files, "requested": [], "all": True, "reps": 4})
    return cases


# ---------------------------------------------------------------------------------------------- document cases

TKEYS = ["build", "service", "dependencies", "input", "output", "bogus"]
TVAL = {"build": "'true'", "service": "'true'", "dependencies": "[]", "input": "[]", "output": "[]", "bogus": "1"}
TNAME = {"ok1": "ok1", "_u": "_u", "0a": "0a", "a-b": "a-b", "!-x": "'-x'", "!a b": "'a b'", "!a::b": "'a::b'", "!a.b": "'a.b'"}


def gen_doc_cases(rng, n):
    cases = []
    subsets = [list(c) for r in range(0, 5) for c in itertools.combinations(TKEYS, r)]
    for k in range(n):
        pkeys = ["targets"] + [x for x in ("name", "imports", "bogus") if rng.random() < (0.15 if x == "bogus" else 0.4)]
        nt = rng.choice([1, 1, 2, 3])
        tnames = rng.sample(list(TNAME), nt)
        ts = []
        for nm in tnames:
            keys = rng.choice(subsets) if rng.random() < 0.6 else rng.choice([["build"], ["service"], ["dependencies"], ["build", "input", "output"],
                                                                                ["service", "input"], ["build", "dependencies"]])
            if rng.random() < 0.8:
                nm2 = rng.choice(["ok1", "_u", "0a", "a-b"]) if nm.startswith("!") else nm
            else:
                nm2 = nm
            if any(t["name"] == nm2 for t in ts):
                continue
            ts.append({"name": nm2, "keys": keys})
        pname = rng.choice(["", "", "proj", "!bad"]) if "name" in pkeys else ""
        if "name" in pkeys and pname == "":
            pkeys.remove("name")
        lines = []
        for pk in pkeys:
            if pk == "name":
                lines.append("name: %s" % ("'::bad'" if pname == "!bad" else pname))
            elif pk == "imports":
                lines.append("imports: {}")
            elif pk == "bogus":
                lines.append("bogus: 1")
            else:
                lines.append("targets:")
                for t in ts:
                    lines.append("  %s:" % TNAME[t["name"]])
                    if not t["keys"]:
                        lines[-1] += " {}"
                    for key in t["keys"]:
                        lines.append("    %s: %s" % (key, TVAL[key]))
                if not ts:
                    lines[-1] = "targets: {}"
        m = {"pkeys": pkeys, "pname": pname, "targets": ts}
        cases.append({"id": "d%d" % k, "kindcase": "doc", "m": m, "files": {"zinoma.yml": "\n".join(lines) + "\n"}, "requested": [],
                      "all": True, "reps": 1})
    return cases


def gen_bytes_cases(rng, n, seeds):
    """byte-level mutants of model-generated documents: exploration with a trivial oracle (see DESIGN.md section 7)"""
    cases = []
    for k in range(n):
        base = bytearray(rng.choice(seeds).encode())
        for _ in range(rng.choice([1, 1, 2, 4, 8])):
            op = rng.random()
            pos = rng.randrange(0, max(1, len(base)))
            if op < 0.3 and base:
                base[pos] = rng.randrange(256)
            elif op < 0.5:
                base[pos:pos] = bytes([rng.choice(b"{}[]:,-&*!|>'\"%@`#?\t\n \x00\xff")])
            elif op < 0.65 and base:
                del base[pos:pos + rng.randint(1, 6)]
            elif op < 0.8:
                base[pos:pos] = rng.choice([b"&a ", b"*a", b"<<: ", b"!!binary ", b"? ", b"- - - ", b"\xef\xbb\xbf", b"1e999", b"~", b"0x1F", b"'", b'"'])
            else:
                base[pos:pos] = base[max(0, pos - 20):pos] * rng.randint(1, 3)
        cases.append({"id": "y%d" % k, "kindcase": "bytes", "m": {}, "files": {"zinoma.yml": {"hex": bytes(base).hex()}}, "requested": [],
                      "all": True, "reps": 2})
    return cases


# ---------------------------------------------------------------------------------------------- normalisation

def norm_id(s, root):
    return s if "::" in s else "_::" + s


def strip_dir(p):
    return p.lstrip("/")


def res_strings(r):
    if r is None:
        return []
    out = []
    for f in r["files"]:
        ext = ",".join(f["ext"]) if f["ext"] else ""
        for p in f["paths"]:
            out.append("F:" + strip_dir(p) + "|" + ext)
    for c in r["cmds"]:
        out.append("C:" + strip_dir(c["dir"]) + "|" + c["cmd"])
    return out


def normalise(case, results):
    def one(r):
        if r["verdict"] != "accept":
            return {"verdict": r["verdict"], "names": sorted(r.get("names", [])), "roots": [], "targets": []}
        root = case["m"].get("root", "_") if case["kindcase"] == "resolve" else "_"
        ts = []
        for tid, t in sorted(r["targets"].items()):
            ts.append({"id": norm_id(tid, root), "kind": t["kind"], "deps": sorted(norm_id(d, root) for d in t["deps"]),
                       "inp": sorted(res_strings(t["input"])), "out": sorted(res_strings(t["output"]))})
        return {"verdict": "accept", "names": sorted(r["names"]), "roots": sorted({norm_id(x, root) for x in r["roots"]}), "targets": ts}
    ns = [one(r) for r in results]
    o = dict(ns[0])
    o["same"] = all(json.dumps(n, sort_keys=True) == json.dumps(ns[0], sort_keys=True) for n in ns)
    if case["kindcase"] != "resolve":
        o = {"verdict": o["verdict"], "same": o["same"]}
    return o


def run_shard(args):
    name, cases = args
    jp = os.path.join(CACHE, "jobs", name + ".json")
    out = os.path.join(CACHE, "jobs", name + ".ndjson")
    # if the harness process dies on a case (abort, stack overflow, ...) that case is the culprit; the rest is re-run
    byid = {c["id"]: c for c in cases}
    got = {}
    todo = list(cases)
    rc, o = 0, ""
    for _attempt in range(30):
        if not todo:
            break
        json.dump({"out": out, "scratch": os.path.join(CACHE, "scratch"),
                   "cases": [{"id": c["id"], "files": c["files"], "entry": ".", "requested": c["requested"], "all": c.get("all", False),
                              "reps": c.get("reps", 1), "m": 0} for c in todo]}, open(jp, "w"))
        rc, o = run(["timeout", "-k", "2", "1500", ZV, "config", jp], timeout=1600)
        n0 = len(got)
        if os.path.exists(out):
            for l in open(out, errors="replace"):
                try:
                    r = json.loads(l)
                except ValueError:
                    break
                got[r["id"]] = r["results"]
        if rc == 0:
            break
        missing = [k for k, c in enumerate(todo) if c["id"] not in got]
        if not missing:
            break
        todo = todo[missing[0] + 1:]        # the first missing case killed the process: it stays without an answer (= panic)
        rc = 0
    obs = os.path.join(CACHE, "jobs", name + ".obs.ndjson")
    lines = []
    for c in cases:
        if c["id"] in got:
            o_ = normalise(c, got[c["id"]])
        else:
            # the harness process died on this case (abort, stack overflow, ...): that is a verdict, not a tool error
            o_ = {"verdict": "panic", "names": [], "roots": [], "targets": [], "same": True} if c["kindcase"] == "resolve" else {"verdict": "panic", "same": True}
        lines.append({"id": c["id"], "kindcase": c["kindcase"], "m": c["m"], "obs": o_})
    with open(obs, "w") as f:
        for l in lines:
            f.write(json.dumps(l) + "\n")
    if rc != 0 and len(got) == len(cases):
        return {"name": name, "error": "zv config rc=%d %s" % (rc, o[-800:])}
    rc2, o2 = tlc("ConfigObs.tla", "EngineObs.cfg", workers=1, env={"TRACE": obs}, timeout=1200,
                  java_opts="-Xss1g -Xmx3g -Dtlc2.tool.queue.IStateQueue=StateDeque", metaname="cobs_" + name)
    viol = []
    for line in o2.splitlines():
        m = VIOL_RE.match(line.strip())
        if m:
            viol.append({"prop": m.group(1), "sig": m.group(3), "line": int(m.group(2))})
    if "TRACE-LINES" not in o2 or "TRACE-NOT-CONSUMED" in o2:
        return {"name": name, "error": "trace validation failed: " + "\n".join(x for x in o2.splitlines() if not TLC_NOISE.match(x))[-2000:]}
    return {"name": name, "lines": lines, "viol": viol, "died": rc != 0}


def mc(tier):
    out = {}
    spec_h = tree_hash([os.path.join(SPEC, f) for f in ("Resolver.tla", "Loader.tla", "ConfigRules.tla")])
    runs = [("resolver2", "Resolver.tla", {"MaxRefs": 1, "MaxTargets": 2}, ["VerdictRight", "Bounded"], []),
            ("loader2", "Loader.tla", {"UniqueNames": True, "Dirs": '{"d0", "d1"}'}, ["VerdictRight", "Bounded"], [])]
    if tier == "thorough":
        runs.append(("resolver3", "Resolver.tla", {"MaxRefs": 1, "MaxTargets": 3}, ["VerdictRight", "Bounded"], []))
        runs.append(("loader3", "Loader.tla", {"UniqueNames": True, "Dirs": '{"d0", "d1", "d2"}'}, ["VerdictRight", "Bounded"], []))
    for name, spec, consts, invs, props in runs:
        key = hashlib.sha256(json.dumps([spec_h, name, consts, invs, props], sort_keys=True).encode()).hexdigest()[:16]
        cp = os.path.join(RESULTS, "mc_%s_%s.json" % (name, key))
        if os.path.exists(cp):
            out[name] = json.load(open(cp))
            continue
        cfg = write_cfg("Config_" + name, consts, invs, props, "Spec", False)
        t0 = time.time()
        rc, o = tlc(spec, cfg, workers=min(12, NCPU), timeout=3400, metaname="mc_" + name)
        st = tlc_stats(o)
        st.update({"name": name, "constants": consts, "invariants": invs, "properties": props, "wall_s": round(time.time() - t0, 1)})
        if st["ok"]:
            json.dump(st, open(cp, "w"))
        else:
            st["tail"] = "\n".join(l for l in o.splitlines() if not TLC_NOISE.match(l))[-2500:]
        log("TLC %s: %s distinct=%d %.0fs" % (name, "ok" if st["ok"] else "FAILED", st["distinct"], st["wall_s"]))
        out[name] = st
    return out


def make_cases(tier, seed):
    rng = random.Random(seed * 13 + 1)
    quick = tier != "thorough"
    cases = gen_resolve_cases(rng, 2500 if quick else 30000)
    cases += gen_load_cases(rng, 800 if quick else 8000)
    docs = gen_doc_cases(rng, 800 if quick else 8000)
    cases += docs
    seeds = [c["files"]["zinoma.yml"] for c in docs[:200]] + [list(c["files"].values())[0] for c in cases[:100]]
    cases += gen_bytes_cases(rng, 1500 if quick else 30000, seeds)
    return cases


NONTRIVIAL = {
    "C09": lambda c, o: c["kindcase"] == "resolve" and len(c["m"]["targets"]) >= 2,
    "C14": lambda c, o: c["kindcase"] in ("load", "doc", "bytes"),
    "C19": lambda c, o: c["kindcase"] == "resolve" and len({t["name"] for t in c["m"]["targets"]}) < len(c["m"]["targets"]),
}


def suite(tier, seed):
    key = "cfg_%s_%s_%s_%d" % (repo_hash(), verif_hash(), tier, seed)
    cp = os.path.join(RESULTS, key + ".json")
    if os.path.exists(cp):
        return json.load(open(cp))
    with Lock("cfg-suite"):
        if os.path.exists(cp):
            return json.load(open(cp))
        t0 = time.time()
        harness_ok = True
        try:
            build_harness()
        except ToolError as e:
            harness_ok = False
            log("configuration suite: harness does not build against this tree - command-line leg only:", str(e)[-400:])
        res = {"engine": "config", "harness_built": harness_ok, "mc": mc(tier), "tier": tier, "seed": seed, "violations": [], "tool_errors": [], "runs": 0,
               "traces_validated": 0, "samples": [], "nontrivial": {}, "verdicts": {}, "by_kind": {}}
        cases = make_cases(tier, seed) if harness_ok else []
        byid = {c["id"]: c for c in cases}
        k = NCPU * 2
        shards = [("c%s%d_%d_%d" % (tier[0], seed, os.getpid(), s), cases[s::k]) for s in range(k) if cases[s::k]]
        with cf.ThreadPoolExecutor(NCPU) as ex:
            rs = list(ex.map(run_shard, shards))
        seen = {p: set() for p in PROPS}
        for r in rs:
            if "error" in r:
                res["tool_errors"].append({"job": r["name"], "what": r["error"]})
                continue
            for ln in r["lines"]:
                c = byid[ln["id"]]
                res["runs"] += 1
                res["traces_validated"] += 1
                v = ln["obs"]["verdict"]
                res["verdicts"][c["kindcase"] + ":" + v] = res["verdicts"].get(c["kindcase"] + ":" + v, 0) + 1
                fp = hashlib.md5(json.dumps(c["files"], sort_keys=True).encode()).hexdigest()
                for p, f in NONTRIVIAL.items():
                    if f(c, ln["obs"]):
                        seen[p].add(fp)
                if len(res["samples"]) < 3 and c["kindcase"] != "bytes" and len(c["files"]) > 1:
                    res["samples"].append({"case": c["m"], "files": c["files"], "observed": ln["obs"]})
            for v in r["viol"]:
                ln = r["lines"][v["line"] - 1]
                res["violations"].append({"prop": v["prop"], "sig": v["sig"], "group": "config:" + ln["kindcase"], "case": byid[ln["id"]],
                                          "observed": ln["obs"], "confirmed": False})
        res["nontrivial"] = {p: len(s) for p, s in seen.items()}
        for name, st in res["mc"].items():
            if not st["ok"]:
                res["tool_errors"].append({"job": "tlc:" + name, "what": "model checking failed", "tail": st.get("tail", "")})
        res["wall_s"] = round(time.time() - t0, 1)
        if not res["tool_errors"]:
            json.dump(res, open(cp, "w"))
        return res


def replay(pid, path):
    rp = json.load(open(path))
    build_harness()
    r = run_shard(("creplay_%d" % os.getpid(), [rp["case"]]))
    if "error" in r:
        raise ToolError(r["error"])
    return [v for v in r["viol"] if v["prop"] == pid], "replayed"


def describe(pid, res):
    states = sum(st["distinct"] for st in res["mc"].values())
    trans = sum(st["generated"] for st in res["mc"].values())
    cov = {"states": states, "transitions": trans, "traces_validated_against_impl": res["traces_validated"],
           "samples": res["samples"][:2] + [{"tlc_configuration": n, "constants": st["constants"], "distinct_states": st["distinct"]}
                                            for n, st in res["mc"].items()],
           "evaluations": res["runs"], "distinct_nontrivial": res["nontrivial"].get(pid, 0),
           "rule": "one evaluation = one generated case (graph over two projects with both reference kinds / import arrangement of three "
                   "directories / document structure / byte-level mutant) answered by zinoma's loader and resolver and compared by TLC with "
                   "ConfigRules.tla; non-trivial for %s: distinct cases of its kind" % pid,
           "exhaustive": False, "verdicts": res["verdicts"],
           "byte_level_cases_are_exploration_only": True,
           "tlc_configurations": {n: {"distinct": st["distinct"], "generated": st["generated"], "wall_s": st["wall_s"]} for n, st in res["mc"].items()}}
    assumptions = ["the YAML parser (serde_yaml) is not modelled: documents are enumerated as structures; byte-level mutants have the "
                   "trivial oracle 'a verdict, no panic, the same twice' and are exploration, not model checking",
                   "project arrangements use three directories and two names; graphs up to four targets over two projects"]
    return cov, "model_checking", assumptions
