#!/bin/bash
# tools/sweep_seeds.sh <parallel> <seed:props>... : evaluate seeded changes with `vp run`, at most <parallel> at a time
par=$1; shift
for item in "$@"; do
  while [ "$(vp runs 2>/dev/null | grep -c ' running ')" -ge "$par" ]; do sleep 20; done
  sd=${item%%:*}; props=$(echo ${item##*:} | tr ',' ' ')
  case $sd in /*) dir=$sd;; *) dir=/tmp/seeds/$sd;; esac
  vp run --timeout 90m -- tools/seed_eval.sh $dir $props | head -1
  sleep 5
done
