#!/bin/bash
# tools/run_engine_seeds.sh <seed>... : the engine suite (all its properties) once per seed on /repo (false-alarm hunt)
cd "$(dirname "$0")/.."
for sd in "$@"; do
  for p in C01 C04 C06 C07 C08 C10 C11 C17 C20; do
    s=$(date +%s); VERIF_SEED=$sd ./check $p > /tmp/es_${sd}_$p.out 2> /tmp/es_${sd}_$p.err; rc=$?
    echo "seed=$sd $p rc=$rc $(( $(date +%s) - s ))s $(tail -1 /tmp/es_${sd}_$p.out | cut -c1-90)"
  done
done
echo ALLDONE
