#!/bin/bash
# tools/run_all.sh [tier] : run every registered check on /repo, one after the other; summary on stdout
tier=${1:-quick}
cd "$(dirname "$0")/.."
for p in C01 C02 C03 C04 C05 C06 C07 C08 C09 C10 C11 C12 C13 C14 C15 C16 C17 C18 C19 C20; do
  s=$(date +%s); ./check $p --tier $tier > /tmp/runall_$p.out 2> /tmp/runall_$p.err; rc=$?
  echo "$p rc=$rc $(( $(date +%s) - s ))s $(tail -1 /tmp/runall_$p.out | cut -c1-100) $(grep -c KNOWN /tmp/runall_$p.out) known"
done
