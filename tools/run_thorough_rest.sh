#!/bin/bash
# tools/run_thorough_rest.sh : the thorough tier of the non-engine suites, one after the other (the engine suite's thorough run is separate)
cd "$(dirname "$0")/.."
for p in C09 C12 C02 C15; do
  s=$(date +%s); ./check $p --tier thorough > /tmp/thor_$p.out 2> /tmp/thor_$p.err; rc=$?
  echo "$p thorough rc=$rc $(( $(date +%s) - s ))s $(tail -1 /tmp/thor_$p.out | cut -c1-100)"
done
echo ALLDONE
