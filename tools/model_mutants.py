#!/usr/bin/env python3
"""Sharpness of the design specifications: each switch below re-introduces a behaviour the code used to have (or an open
finding); TLC must then report the stated error. Writes seeded/MODEL_MUTANTS.md. Not part of any registered command."""
import sys, re
sys.path.insert(0, '/verif/lib'); sys.path.insert(0, '/verif/tools')
from common import *
import engine_suite as E

def engine(name, over, expect):
    n, consts, invs, props, spec, dl, served = [c for c in E.mc_configs("quick") if c[0] == name][0]
    consts = dict(consts); consts.update(over)
    cfg = write_cfg("MM_" + name, consts, invs, props, spec, dl)
    rc, o = tlc("MC_Engine.tla", cfg, workers=8, timeout=1800)
    return "Engine.tla %s with %s" % (name, over), expect, o

def other(spec, name, consts, invs, props, expect):
    cfg = write_cfg("MM_" + name, consts, invs, props, "Spec", False)
    rc, o = tlc(spec, cfg, workers=8, timeout=1800)
    return "%s %s with %s" % (spec, name, consts), expect, o

runs = [
    lambda: engine("once3", {"AckLate": False}, "Deadlock reached"),                       # F1
    lambda: engine("cap2", {"CapChan": 1}, "Deadlock reached"),                            # F2
    lambda: engine("watch2", {"StrictStart": True}, "Invariant NoStepViolation is violated"),  # F10 (open)
    lambda: engine("once3", {"Unrequests": True}, "Deadlock reached"),   # not a defect of the code: the TODO "unrequest dependency services", explored
    lambda: engine("watch2", {"RecordBefore": False, "GuardNoInput": True, "Foreigns": True}, "Invariant UpToDate is violated"),   # F3 seen from the engine
    lambda: other("Incremental.tla", "inc", {"Paths": "{p1, p2}", "NT": 1, "MaxM": 1, "MaxC": 1, "MaxOps": 2, "MaxInv": 2, "RecordBefore": False, "GuardNoInput": True, "Foreigns": True},
                  ["SkipMeansUpToDate"], [], "Invariant SkipMeansUpToDate is violated"),   # F3
    lambda: other("Incremental.tla", "inc_f11", {"Paths": "{p1, p2}", "NT": 1, "MaxM": 1, "MaxC": 1, "MaxOps": 2, "MaxInv": 2, "RecordBefore": True, "GuardNoInput": False, "Foreigns": True},
                  [], ["NoInputNeverSkipped"], "Action property NoInputNeverSkipped is violated"),   # F11
    lambda: other("Watcher.tla", "watcher", {"MaxRes": 2, "MaxEvents": 1, "DedupAcrossGroups": True}, ["NoViolation", "GroupingFaithful"], [],
                  "is violated"),   # watch registrations de-duplicated across extension groups (seeded changes C16r3/m1, C06r3/m2)
    lambda: other("Loader.tla", "loader", {"UniqueNames": False, "Dirs": '{"d0", "d1", "d2"}'}, ["VerdictRight"], [], "Invariant VerdictRight is violated"),  # F7
]
lines = ["# Model mutants: the design specifications are sharp", "", "| specification and switch | TLC must report | reported | states |", "|---|---|---|---|"]
for r in runs:
    what, expect, o = r()
    st = tlc_stats(o)
    lines.append("| %s | %s | %s | %d |" % (what.replace("|", "/"), expect, "yes" if expect in o else "NO", st["distinct"]))
    print(lines[-1], flush=True)
open("/verif/seeded/MODEL_MUTANTS.md", "w").write("\n".join(lines) + "\n")
