#!/usr/bin/env python3
"""(Re)generate /verif/MANIFEST.json from the table below."""
import json, subprocess
props = [json.loads(l)["id"] for l in open("/verif/properties.jsonl")]
ENGINE = {
 "C01": "TLC model-checks Engine.tla (invariant NoStepViolation: StartSafe, AggForwardSafe) over every graph/kind/root assignment up to the bound; the real engine is executed under controlled schedules and every recorded execution is validated by TLC against EngineObs.tla (predicates start-before-deps-ready, aggregate-forwards-early).",
 "C04": "TLC deadlock check + temporal Terminates under fairness on Engine.tla incl. capacity-1 inbox configurations; harness quiescence is a fact derived from hooks, so a quiescent non-terminal state of the real engine is reported by EngineObs (stuck-waiting-for-acknowledgement).",
 "C06": "Engine.tla watch configurations (file changes in every build phase, invariant UpToDate at quiescence, temporal Converges); harness watch runs with real files, real incremental runner, injected notifications; EngineObs predicates quiescent-but-not-up-to-date and stale-skip.",
 "C07": "Engine.tla with failures anywhere (ExitStatusRight, NoStepViolation); harness runs with failing virtual scripts and unlaunchable services; EngineObs predicates on error naming, exit status, ok-from-failed-target.",
 "C08": "Engine.tla invariant OnceOnly / ExitComplete; EngineObs counts starts and skips per target and closure membership on every recorded execution (shared dependencies, duplicate roots).",
 "C10": "Engine.tla with Signal enabled in every state, temporal SignalLeadsToExit without fairness on scripts, CleanExit; harness sends the signal at random/enumerated instants and never finishes scripts afterwards; EngineObs: process-alive-at-exit, actor-not-joined, signal-not-honoured.",
 "C11": "Engine.tla invariants KeepAlive, ServiceUpForDependents, SingleInstance; real service processes in the harness; EngineObs: two-instances (pid overlap), kept-alive iff service behind a root, actual flags.",
 "C17": "Engine.tla temporal Independent under fairness that excludes slow scripts; harness never completes slow virtual scripts and requires the independent targets to complete (quiescence with slow scripts parked is legitimate only then).",
 "C20": "Engine.tla ExitComplete + KeepAlive are closed forms over Closure(roots) / ServiceBehind(roots), which are invariant under replacing an aggregate root by its dependencies; EngineObs evaluates the same closed forms on every execution with aggregate roots (nested, empty).",
}
INCR = {
 "C02": "TLC model-checks Incremental.tla (FullOnlyFromSuccess, SkipMeansUpToDate over every interleaving of user operations and run phases); generated histories run on real files through the real loader/resolver/incremental::run; TLC folds each through IncrementalObs.tla, which flags any skip decision the specification does not prescribe (added/removed/renamed/rewritten file, mtime-or-content rule, command outputs, no record).",
 "C03": "Same machinery; IncrementalObs flags any execution where the specification prescribes a skip (untouched re-invocations end every history; multi-project, same command text in two directories, inherited outputs); NoInputNoRecord for input-less targets.",
 "C05": "Incremental.tla has Crash enabled in every phase, a partial-write state and Corrupt; histories carry script failures, cancellations, crashes at each of the seven hook points of incremental::run, truncation of the record at arbitrary offsets, absurd length prefixes, foreign records; IncrementalObs flags a skip on a non-full record and any error/panic/hang.",
 "C13": "Histories over a generated two-project layout (producer in an imported project, identical relative paths and identical command text in both directories) resolved by the real loader+resolver; the consumer's denoted input set in the specification includes the producer's outputs in the producer's directory.",
 "C18": "Incremental.tla action property RecIndependent; histories interleave runs, failures, corruptions of several targets (prefix-related names, imported project reached from both entry directories) and compare each target's decisions with its own abstract record.",
}
CFG = {
 "C09": "TLC model-checks Resolver.tla (ir.rs add_target as a step machine with ancestor chain, on every digraph incl. cycles/self-loops over two projects, both reference kinds, unknown projects/targets) against ConfigRules.tla (VerdictRight, Bounded = never hangs); generated graphs are rendered to project files, resolved by zinoma's own loader+resolver, and TLC compares verdict, closure and per-target dependencies with ConfigRules through ConfigObs.tla.",
 "C14": "TLC model-checks Loader.tla (add_project recursion, imports iterated in every order) against ConfigRules.ArrangementOK; generated import arrangements (cycles, self-imports, missing dirs, unnamed/misnamed/homonymous projects), document structures (every key subset per target, unknown keys, invalid names) and byte-level mutants are loaded 2-4 times each; ConfigObs.tla compares verdicts with the rules and requires identical answers. The byte-level part is exploration with a trivial oracle.",
 "C19": "ConfigRules.CliNames / Denotes / Resolve define the accepted command-line names and what each spelling denotes; ConfigObs.tla compares zinoma's available names, the parsed roots (both spellings -> one target) and every resolved reference (bare = same project) on generated projects with overlapping names, named and unnamed root.",
}
RES = {
 "C12": "ResourceRules.tla defines MustRemove / MayRemove (three-valued where the statement is silent) and TLC checks its lemmas (CleanWithin, CleanIsDenoted, NeverThroughLink) over every tree on a small universe; generated trees x output declarations are materialised and cleaned by zinoma's own clean code; the full before/after snapshot is compared by TLC through ResourcesObs.tla.",
 "C15": "ResourceRules.tla defines Must / MayList; lemmas (Monotone, NoWorkDir, NormIdempotent, MissingContributesNothing) checked by TLC; generated trees x declarations (through zinoma's own extension normalisation) are listed by fs::list_files_in_resources and compared by TLC.",
 "C16": "ResourceRules.Relevant; the REAL TargetWatcher (real inotify) is driven with create/modify/rename/delete on generated names (editor temporaries, .zinoma, multi-dot, non-UTF-8); each operation is closed by a sentinel edit so that 'not reported' and 'watcher still alive' are facts; TLC compares with Relevant.",
}
checks = []
for eng, table, tech in (("config", CFG, "explicit TLA+ specs (Resolver.tla, Loader.tla, ConfigRules.tla) checked by TLC + TLC validation of zinoma's answers against ConfigObs.tla"),
                         ("resources", RES, "declarative TLA+ rules (ResourceRules.tla) with TLC-checked lemmas + TLC validation of zinoma's listing/cleaning/watching against ResourcesObs.tla (generated-case use of TLC)")):
    for pid, text in table.items():
        checks.append({
            "property_id": pid,
            "quick_cmd": "./check %s --tier quick" % pid,
            "thorough_cmd": "./check %s --tier thorough" % pid,
            "evidence_file": "evidence/%s.json" % pid,
            "replay_cmd_template": "./check %s --replay {path}" % pid,
            "engine": eng,
            "level_claimed": {"category": "model_checking", "text": text, "design_ref": "DESIGN.md section 6 (%s), sections 3.4-3.5" % pid},
            "level_note": "The algorithms/rules are exhaustively checked only within small bounds (2-3 targets, 2-3 directories, 9-path universe); the binding is by generated cases answered by the real code and compared by TLC; parsers (serde_yaml), hash functions and the file system are trusted; watcher cases depend on real inotify timing and are sentinel-closed.",
            "technique": tech,
        })
for pid, text in INCR.items():
    checks.append({
        "property_id": pid,
        "quick_cmd": "./check %s --tier quick" % pid,
        "thorough_cmd": "./check %s --tier thorough" % pid,
        "evidence_file": "evidence/%s.json" % pid,
        "replay_cmd_template": "./check %s --replay {path}" % pid,
        "engine": "incremental",
        "level_claimed": {"category": "model_checking", "text": text, "design_ref": "DESIGN.md section 6 (%s), section 3.3" % pid},
        "level_note": "Exhaustive only within the TLC bounds (2-3 paths, 1-2 targets, 2 mtimes x 2 contents, <=2 user operations, <=3 invocations); the binding executes generated histories on the real code and lets TLC compare every decision; contents are concrete byte strings around the 1024-byte read buffer; hash collisions and real process death inside the state write are outside (the latter is emulated by truncation).",
        "technique": "explicit TLA+ spec (Incremental.tla) checked by TLC + TLC trace validation of real executions against IncrementalObs.tla",
    })
for pid, text in ENGINE.items():
    checks.append({
        "property_id": pid,
        "quick_cmd": "./check %s --tier quick" % pid,
        "thorough_cmd": "./check %s --tier thorough" % pid,
        "evidence_file": "evidence/%s.json" % pid,
        "replay_cmd_template": "./check %s --replay {path}" % pid,
        "engine": "engine",
        "level_claimed": {"category": "model_checking", "text": text, "design_ref": "DESIGN.md section 6 (%s), section 3.1-3.2" % pid},
        "level_note": "Exhaustive only within the stated TLC bounds (all graphs N<=3, N=2 for the combined/liveness configurations, capacity 1); the binding to the code is by executing the real engine under harness-chosen schedules (random policies, DFS, TLC-generated behaviours, held phases of incremental::run) with virtual build shells and real service processes, and validating each recorded execution with TLC against the design specification itself (zero drift on the unchanged tree) and against the observable specification; real shells, signals and inotify are covered by the real-binary leg. Trusted: TLC, the hook events (sequence-numbered under one mutex), the projector tools/project.py (renaming only).",
        "technique": "explicit TLA+ spec (Engine.tla) model-checked by TLC; real engine driven by a schedule-controlling harness; every recorded execution validated by TLC step-by-step against Engine.tla (Trace_Engine.tla) and against the observable predicates (EngineObs.tla); TLC-generated behaviours (Gen_Engine.tla) replayed into the code; real binary traces validated the same way",
    })
checks.sort(key=lambda c: c["property_id"])
claimed = {c["property_id"] for c in checks}
hooks = subprocess.run(["git", "-C", "/repo", "log", "--format=%H %s"], capture_output=True, text=True).stdout.splitlines()
m = {
 "version": 1,
 "setup_cmd": "cd /verif/harness && (test -f Cargo.lock || cp /repo/Cargo.lock .) && CARGO_NET_OFFLINE=true cargo build --offline",
 "hooks": {"guard": "zinoma_verif", "enable": "RUSTFLAGS='--cfg zinoma_verif' (the harness crate's .cargo/config.toml sets it; the traced binary is built with the same flag into /verif/.build/traced)",
           "baseline_off_cmd": "cd /repo && cargo test --workspace --no-fail-fast --offline",
           "source_commits": [l.split()[0] for l in hooks if " verif hook " in l],
           "add_only": True},
 "engines": [{"name": "engine", "path": "lib/engine_suite.py", "serves_properties": sorted(ENGINE),
              "kind_free_text": "TLC on spec/Engine.tla; zv harness (harness/src/engine_driver.rs) controlling the real engine; real binary with hooks; TLC trace validation against spec/EngineObs.tla"},
             {"name": "incremental", "path": "lib/incr_suite.py", "serves_properties": sorted(INCR),
              "kind_free_text": "TLC on spec/Incremental.tla; zv incr (harness/src/misc_drivers.rs) running generated histories on real files; TLC trace validation against spec/IncrementalObs.tla"},
             {"name": "config", "path": "lib/cfg_suite.py", "serves_properties": sorted(CFG), "kind_free_text": "TLC on Resolver.tla / Loader.tla; zv config; ConfigObs.tla"},
             {"name": "resources", "path": "lib/res_suite.py", "serves_properties": sorted(RES), "kind_free_text": "TLC on Resources.tla; zv res / zv watch; ResourcesObs.tla"}],
 "checks": checks,
 "notes": "Genuine defects repaired in /repo are listed in known_findings.json (status fixed); open findings are reported as KNOWN-FINDING lines.",
 "not_applicable": [{"property_id": p, "reason": "check not built yet (construction in progress); will be claimed once its TLA+ spec and binding exist"} for p in props if p not in claimed],
}
json.dump(m, open("/verif/MANIFEST.json", "w"), indent=1)
print("claimed", sorted(claimed))
