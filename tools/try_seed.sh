#!/bin/bash
# tools/try_seed.sh <patch.diff> <property id>...   apply a seeded change to /repo, run the checks, undo it
set -u
patch=$1; shift
cd /repo && git status --porcelain | grep -q . && { echo "repo not clean"; exit 2; }
git -C /repo apply "$patch" || { echo "patch does not apply"; exit 2; }
for pid in "$@"; do
  (cd /verif && ./check $pid 2>/tmp/try_seed_$pid.err | grep -E "VIOLATION|KNOWN|held|VIOLATED|tool errors|signature" | head -8)
  echo "   [$pid rc=${PIPESTATUS[0]}]"
done
git -C /repo checkout -- . && git -C /repo status --porcelain
