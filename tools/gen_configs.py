#!/usr/bin/env python3
"""Enumerate engine configurations exactly as Engine.tla's Init does (kinds x DAGs with deps[t] <= 1..t-1
x non-empty root sets), plus focused N=4..6 families. Shared by the harness drivers."""
import itertools, json, random

def subsets(xs):
    xs = list(xs)
    for r in range(len(xs) + 1):
        for c in itertools.combinations(xs, r):
            yield list(c)

def all_configs(n, watch=False):
    """every (kind, deps, roots) for n targets; mirrors Init of Engine.tla"""
    out = []
    for kind in itertools.product("bsa", repeat=n):
        for deps in itertools.product(*[list(subsets(range(1, t))) for t in range(1, n + 1)]):
            for roots in subsets(range(1, n + 1)):
                if not roots:
                    continue
                out.append({"n": n, "kind": list(kind), "deps": [list(d) for d in deps], "roots": roots, "watch": watch})
    return out

def closure(cfg):
    seen, todo = set(), list(cfg["roots"])
    while todo:
        t = todo.pop()
        if t in seen:
            continue
        seen.add(t)
        todo.extend(cfg["deps"][t - 1])
    return seen

def canonical(cfg):
    """drop configurations in which some target is outside the closure of the roots AND is the highest id
    (they are covered by the same configuration with fewer targets) - used to thin the quick tier only"""
    return len(closure(cfg)) == cfg["n"]

def finish(cfg, i, rng=None, rec=False, inherit=False, fail=False, slow=False):
    n = cfg["n"]
    cfg = dict(cfg)
    cfg.setdefault("watch", False)
    builds = [t for t in range(1, n + 1) if cfg["kind"][t - 1] == "b"]
    nonagg = [t for t in range(1, n + 1) if cfg["kind"][t - 1] != "a"]
    cfg["may_fail"] = nonagg if fail else []
    cfg["slow"] = cfg.get("slow", [])
    cfg["svc_fail"] = cfg.get("svc_fail", [])
    if rng is not None and fail:
        svcs = [t for t in nonagg if cfg["kind"][t - 1] == "s"]
        cfg["svc_fail"] = [t for t in svcs if rng.random() < 0.3]
    if rng is not None and slow and builds and rng.random() < 0.5:
        cfg["slow"] = [rng.choice(builds)]
    cfg["rec"] = [t for t in builds if rng is not None and rec and rng.random() < 0.5]
    cfg["inh"] = [[d for d in cfg["deps"][t - 1] if cfg["kind"][d - 1] == "b" and cfg["kind"][t - 1] != "a"
                   and inherit and (rng is None or rng.random() < 0.6)] for t in range(1, n + 1)]
    cfg.setdefault("gates", [])
    cfg["id"] = "c%d" % i
    return cfg

FAMILIES = {
    # name: (kinds, deps, roots)
    "diamond":        ("bbab", [[], [1], [1], [2, 3]], [4]),
    "diamond_agg":    ("bbaa", [[], [1], [1], [2, 3]], [4]),
    "diamond_builds": ("bbbb", [[], [1], [1], [2, 3]], [4]),
    "late_chain":     ("baaaab", [[], [1], [2], [3], [4], [1, 5]], [6]),
    "agg_over_svc":   ("sbaa", [[], [1], [1, 2], [3]], [4]),
    "build_over_svc": ("sbb", [[], [1], [1, 2]], [3]),
    "svc_chain":      ("bssb", [[], [1], [2], [3]], [4]),
    "two_roots":      ("bbbb", [[], [1], [1], [2]], [3, 4]),
    "two_roots_dep":  ("bbb", [[], [1], [2]], [2, 3]),
    "nested_aggs":    ("bsaaa", [[], [], [1], [2, 3], [4]], [5]),
    "empty_agg":      ("aab", [[], [1], [2]], [3]),
    "wide_fanin":     ("baaaaa", [[], [1], [1], [1], [1], [2, 3, 4, 5]], [6]),
    "wide_fanout":    ("bbbba", [[], [], [], [], [1, 2, 3, 4]], [5]),
    "svc_and_build_roots": ("sbb", [[], [], [1]], [1, 3]),
    "dup_roots":      ("bb", [[], [1]], [2, 2, 1]),
    "svc_next_to_build": ("bsbb", [[], [], [2], [1, 3]], [4]),
    "svc_under_agg_next_to_build": ("bsab", [[], [], [2], [1, 3]], [4]),
    # an aggregate over a service (which needs a build) AND a build, with a dependent above it: the two kinds of notices
    # (Invalidated{Service} / Invalidated{Build}) travel through the aggregate independently and may overlap in watch mode
    "mixed_agg_under_svc":   ("bsbas", [[], [1], [], [2, 3], [4]], [5]),
    "mixed_agg_under_build": ("bsbab", [[], [1], [], [2, 3], [4]], [5]),
}

def families():
    out = []
    for name, (kinds, deps, roots) in FAMILIES.items():
        out.append({"n": len(kinds), "kind": list(kinds), "deps": deps, "roots": roots, "family": name})
    return out

def random_config(rng, n):
    kind = [rng.choice("bbbsa") for _ in range(n)]
    deps = [[d for d in range(1, t) if rng.random() < min(0.9, 1.5 / max(1, t - 1))] for t in range(1, n + 1)]
    k = rng.randint(1, max(1, n // 2))
    roots = sorted(rng.sample(range(1, n + 1), k))
    if n not in roots and rng.random() < 0.7:
        roots.append(n)
    return {"n": n, "kind": kind, "deps": deps, "roots": roots}

if __name__ == "__main__":
    import sys
    n = int(sys.argv[1])
    print(len(all_configs(n)))
