#!/usr/bin/env python3
"""Project a raw hook log (ndjson written by the zinoma probe / the zv harness) onto the event
vocabulary of spec/EngineObs.tla. Pure renaming and bookkeeping of what was logged; no verdicts."""
import json, sys

def tnum(name):
    if name in ("ROOT", "", None):
        return 0
    return int(name[1:])

K = {"build": "b", "service": "s"}
TY = {"requested": "req", "unrequested": "unreq", "ok": "ok", "invalidated": "inv"}

def project(lines, names=None):
    """names: optional mapping target-name -> number for real-binary traces"""
    num = (lambda n: 0 if n in ("ROOT", "", None) else names[n]) if names else tnum
    out = []
    cfg = None
    launched, exited, executed, sig = [], [], {}, False
    kinds = []
    for raw in lines:
        if not raw.strip():
            continue
        r = json.loads(raw)
        ev = r["ev"]
        if ev == "cfg":
            c = r["cfg"]
            cfg = {"n": c["n"], "kind": c["kind"], "deps": c["deps"], "roots": c["roots"],
                   "watch": c.get("watch", False), "inh": c.get("inh") or [[] for _ in range(c["n"])],
                   "rec": c.get("rec", []), "slow": c.get("slow", []), "id": c.get("id", ""), "scale": bool(c.get("scale", False))}
            kinds = c["kind"]
            launched, exited, executed, sig = [], [], {}, False
            out.append({"e": "cfg", "cfg": cfg})
        elif ev == "launch":
            launched.append(num(r["t"]))
        elif ev == "actor_exit":
            exited.append(num(r["t"]))
        elif ev == "idle":
            executed[num(r["t"])] = r["st"]["executed"]
        elif ev in ("recv", "send") and cfg and cfg["scale"]:
            pass        # scale runs: thousands of messages between hundreds of targets; only start/finish/exit are folded
        elif ev == "recv":
            m = r["msg"]
            out.append({"e": "recv", "t": num(r["t"]), "ty": TY[m["type"]], "k": K[m["kind"]],
                        "from": num(m["from"]), "act": bool(m.get("actual", False))})
        elif ev == "build_begin":
            out.append({"e": "begin", "t": num(r["t"])})
        elif ev in ("vbuild_wait", "build_spawned"):
            out.append({"e": "start", "t": num(r["t"])})
        elif ev == "incr_checked" and r.get("skip"):
            out.append({"e": "skip", "t": num(r["t"])})
        elif ev == "vbuild_done":
            out.append({"e": "finish", "t": num(r["t"]), "outcome": r["outcome"]})
        elif ev == "build_reaped":
            out.append({"e": "finish", "t": num(r["t"]), "outcome": {"killed": "cancelled"}.get(r["how"], r["how"])})
        elif ev == "wake_build":
            out.append({"e": "result", "t": num(r["t"]), "res": r["result"]})
        elif ev == "svc_started":
            out.append({"e": "svcstart", "t": num(r["t"]), "pid": r["pid"]})
        elif ev == "svc_stopped":
            out.append({"e": "svcstop", "t": num(r["t"]), "pid": r["pid"]})
        elif ev == "send_error":
            t = num(r["t"])
            if kinds and kinds[t - 1] == "s":
                out.append({"e": "svcfail", "t": t})
        elif ev == "send":
            m = r["msg"]
            out.append({"e": "send", "t": num(r["t"]), "dest": num(r["dest"]), "ty": TY[m["type"]],
                        "k": K[m["kind"]], "act": bool(m.get("actual", False))})
        elif ev == "root_error":
            out.append({"e": "rooterr", "t": num(r["t"])})
        elif ev == "h_edit":
            out.append({"e": "edit", "t": num(r["t"]), "ver": r["ver"]})
        elif ev == "h_signal":
            sig = True
            out.append({"e": "signal"})
        elif ev == "root_wait_signal":
            out.append({"e": "waitsig"})
        elif ev == "h_proc":
            out.append({"e": "proc", "alive": int(r["alive"])})
        elif ev == "h_latency":
            out.append({"e": "latency", "ms": int(r["ms"])})
        elif ev == "h_names":
            out.append({"e": "names", "ok": bool(r["ok"])})
        elif ev == "h_watchrun":
            out.append({"e": "watchrun", "early": bool(r["early_exit"]), "inv": int(r["in_ver"]), "outv": int(r["out_ver"]),
                        "extra": int(r["extra_builds"])})
        elif ev == "h_indep":
            out.append({"e": "indep", "ms": int(r["ms"])})
        elif ev == "h_exit":
            out.append({"e": "exit", "status": int(r["status"]), "launched": sorted(set(launched)),
                        "exited": sorted(set(exited))})
        elif ev == "h_end":
            out.append({"e": "end", "status": r["status"],
                        "executed": sorted(t for t, x in executed.items() if x)})
        elif ev == "h_stall":
            out.append({"e": "end", "status": "stall-after-signal" if sig else "stall",
                        "executed": sorted(t for t, x in executed.items() if x)})
    return out

if __name__ == "__main__":
    src, dst = sys.argv[1], sys.argv[2]
    evs = project(open(src))
    with open(dst, "w") as f:
        for e in evs:
            f.write(json.dumps(e) + "\n")
    print(len(evs))


def project_d(lines):
    """Project a raw harness log onto one-event-per-Engine.tla-action form (spec/Trace_Engine.tla).
    Returns a list of runs, each a list of events starting with its cfg; runs the design spec cannot represent
    (duplicate roots on the command line) are left out."""
    raws = [json.loads(l) for l in lines if l.strip()]
    runs, cur = [], None
    for r in raws:
        if r["ev"] == "cfg":
            cur = [r]
            runs.append(cur)
        elif cur is not None:
            cur.append(r)
    out = []
    for run in runs:
        c = run[0]["cfg"]
        if len(set(c["roots"])) != len(c["roots"]) or sorted(c["roots"]) != list(c["roots"]) or c["n"] > 7 or c.get("scale"):
            continue
        cfg = {"n": c["n"], "kind": c["kind"], "deps": c["deps"], "roots": c["roots"], "watch": c.get("watch", False),
               "inh": c.get("inh") or [[] for _ in range(c["n"])], "rec": c.get("rec", []), "slow": c.get("slow", [])}
        evs = [{"a": "cfg", "cfg": cfg}]

        def post_after(i, t):
            for j in range(i + 1, len(run)):
                e = run[j]
                if e.get("t") != t:
                    continue
                if e["ev"] == "idle":
                    p = dict(e["st"])
                    p["unavail_b"] = [tnum(x) for x in p["unavail_b"]]
                    p["unavail_s"] = [tnum(x) for x in p["unavail_s"]]
                    p["req_b"] = [tnum(x) for x in p["req_b"]]
                    p["req_s"] = [tnum(x) for x in p["req_s"]]
                    p["inflight"] = bool(e.get("inflight", False))
                    p["running"] = bool(e.get("running", False))
                    p["actual_b"] = [tnum(x) for x in e.get("actual_b", [])]
                    p["actual_s"] = [tnum(x) for x in e.get("actual_s", [])]
                    p["has"] = True
                    return p
                if e["ev"] in ("actor_exit", "recv", "wake_inval", "wake_term", "wake_build"):
                    break
            return {"has": False}

        waited = False
        for i, r in enumerate(run):
            ev = r["ev"]
            if ev in ("h_end", "h_exit", "h_stall"):
                break
            if ev == "root_request":
                evs += [{"a": "rootreq"}, {"a": "rootreq"}]
            elif ev == "relay_recv":
                o = r["out"]
                if o["type"] == "error":
                    evs.append({"a": "take", "s": tnum(o["from"]), "dest": -1, "ty": "err", "k": "b", "act": False})
                else:
                    m = o["msg"]
                    evs.append({"a": "take", "s": tnum(m["from"]), "dest": tnum(o["dest"]), "ty": TY[m["type"]], "k": K[m["kind"]],
                                "act": bool(m.get("actual", False))})
            elif ev == "recv":
                m = r["msg"]
                evs.append({"a": "recv", "t": tnum(r["t"]), "ty": TY[m["type"]], "k": K[m["kind"]], "from": tnum(m["from"]),
                            "act": bool(m.get("actual", False)), "post": post_after(i, r["t"])})
            elif ev == "wake_inval":
                evs.append({"a": "inval", "t": tnum(r["t"]), "post": post_after(i, r["t"])})
            elif ev == "wake_term":
                evs.append({"a": "term", "t": tnum(r["t"]), "post": post_after(i, r["t"])})
            elif ev == "incr_checked":
                evs.append({"a": "check", "t": tnum(r["t"]), "skip": bool(r.get("skip"))})
            elif ev in ("vbuild_wait", "build_spawned"):
                evs += [{"a": "spawn", "t": tnum(r["t"])}, {"a": "sread", "t": tnum(r["t"])}]
            elif ev == "build_reaped":       # the real shell (free-running binary)
                if r["how"] == "killed":
                    evs.append({"a": "cancelled", "t": tnum(r["t"])})
                else:
                    evs.append({"a": "sfinish", "t": tnum(r["t"]), "ok": r["how"] == "ok"})
            elif ev == "vbuild_done":
                # what build_target's select! OBSERVED: the script's exit, or the cancellation. (h_finish is only the driver's
                # decision to let the virtual script end; in free-running mode a cancellation can still win the select!, and
                # ScriptFinish of Engine.tla is the observation, not the exit.)
                if r["outcome"] == "cancelled":
                    evs.append({"a": "cancelled", "t": tnum(r["t"])})
                else:
                    evs.append({"a": "sfinish", "t": tnum(r["t"]), "ok": r["outcome"] == "ok"})
            elif ev == "incr_saved":
                evs.append({"a": "record", "t": tnum(r["t"])})
            elif ev == "wake_build":
                evs.append({"a": "result", "t": tnum(r["t"]), "res": r["result"], "post": post_after(i, r["t"])})
            elif ev == "h_edit":
                evs.append({"a": "edit", "t": tnum(r["t"])})
            elif ev == "h_notify":
                evs.append({"a": "notify", "t": tnum(r["t"])})
            elif ev == "h_signal":
                # (free-running mode: a signal the driver sends after engine::run has returned has nothing left to act on)
                if not any(e.get("a") in ("signal", "exit") for e in evs):
                    evs.append({"a": "signal"})
            elif ev == "root_loop_exit":
                if r.get("signalled"):
                    if not any(e.get("a") == "signal" for e in evs):
                        evs.append({"a": "signal"})     # free-running binary: the signal arrived some time before
                    evs.append({"a": "seesig"})
                if not cfg["watch"]:
                    # the next step of the ROOT thread (other threads' events may be logged in between in free-running mode)
                    nxt = next((x["ev"] for x in run[i + 1:] if x["ev"] in ("root_wait_signal", "engine_result", "terminate_begin", "h_exit")), "")
                    waits = nxt == "root_wait_signal"
                    evs.append({"a": "loopexit", "waits": waits})
            elif ev == "root_wait_signal":
                waited = True
            elif ev == "terminate_begin":
                if waited:
                    if not any(e.get("a") == "signal" for e in evs):
                        evs.append({"a": "signal"})
                    evs.append({"a": "waitsigdone"})
                    waited = False
                evs.append({"a": "terminate"})
            elif ev == "terminate_end":
                evs.append({"a": "exit"})
        out.append(evs)
    return out
