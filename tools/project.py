#!/usr/bin/env python3
"""Project a raw hook log (ndjson written by the zinoma probe / the zv harness) onto the event
vocabulary of spec/EngineObs.tla. Pure renaming and bookkeeping of what was logged; no verdicts."""
import json, sys

def tnum(name):
    if name in ("ROOT", "", None):
        return 0
    return int(name[1:])

K = {"build": "b", "service": "s"}
TY = {"requested": "req", "unrequested": "unreq", "ok": "ok", "invalidated": "inv"}

def project(lines, names=None):
    """names: optional mapping target-name -> number for real-binary traces"""
    num = (lambda n: 0 if n in ("ROOT", "", None) else names[n]) if names else tnum
    out = []
    cfg = None
    launched, exited, executed, sig = [], [], {}, False
    kinds = []
    for raw in lines:
        if not raw.strip():
            continue
        r = json.loads(raw)
        ev = r["ev"]
        if ev == "cfg":
            c = r["cfg"]
            cfg = {"n": c["n"], "kind": c["kind"], "deps": c["deps"], "roots": c["roots"],
                   "watch": c.get("watch", False), "inh": c.get("inh") or [[] for _ in range(c["n"])],
                   "rec": c.get("rec", []), "slow": c.get("slow", []), "id": c.get("id", "")}
            kinds = c["kind"]
            launched, exited, executed, sig = [], [], {}, False
            out.append({"e": "cfg", "cfg": cfg})
        elif ev == "launch":
            launched.append(num(r["t"]))
        elif ev == "actor_exit":
            exited.append(num(r["t"]))
        elif ev == "idle":
            executed[num(r["t"])] = r["st"]["executed"]
        elif ev == "recv":
            m = r["msg"]
            out.append({"e": "recv", "t": num(r["t"]), "ty": TY[m["type"]], "k": K[m["kind"]],
                        "from": num(m["from"]), "act": bool(m.get("actual", False))})
        elif ev == "build_begin":
            out.append({"e": "begin", "t": num(r["t"])})
        elif ev in ("vbuild_wait", "build_spawned"):
            out.append({"e": "start", "t": num(r["t"])})
        elif ev == "incr_checked" and r.get("skip"):
            out.append({"e": "skip", "t": num(r["t"])})
        elif ev == "vbuild_done":
            out.append({"e": "finish", "t": num(r["t"]), "outcome": r["outcome"]})
        elif ev == "build_reaped":
            out.append({"e": "finish", "t": num(r["t"]), "outcome": {"killed": "cancelled"}.get(r["how"], r["how"])})
        elif ev == "wake_build":
            out.append({"e": "result", "t": num(r["t"]), "res": r["result"]})
        elif ev == "svc_started":
            out.append({"e": "svcstart", "t": num(r["t"]), "pid": r["pid"]})
        elif ev == "svc_stopped":
            out.append({"e": "svcstop", "t": num(r["t"]), "pid": r["pid"]})
        elif ev == "send_error":
            t = num(r["t"])
            if kinds and kinds[t - 1] == "s":
                out.append({"e": "svcfail", "t": t})
        elif ev == "send":
            m = r["msg"]
            out.append({"e": "send", "t": num(r["t"]), "dest": num(r["dest"]), "ty": TY[m["type"]],
                        "k": K[m["kind"]], "act": bool(m.get("actual", False))})
        elif ev == "root_error":
            out.append({"e": "rooterr", "t": num(r["t"])})
        elif ev == "h_edit":
            out.append({"e": "edit", "t": num(r["t"]), "ver": r["ver"]})
        elif ev == "h_signal":
            sig = True
            out.append({"e": "signal"})
        elif ev == "root_wait_signal":
            out.append({"e": "waitsig"})
        elif ev == "h_proc":
            out.append({"e": "proc", "alive": int(r["alive"])})
        elif ev == "h_latency":
            out.append({"e": "latency", "ms": int(r["ms"])})
        elif ev == "h_names":
            out.append({"e": "names", "ok": bool(r["ok"])})
        elif ev == "h_exit":
            out.append({"e": "exit", "status": int(r["status"]), "launched": sorted(set(launched)),
                        "exited": sorted(set(exited))})
        elif ev == "h_end":
            out.append({"e": "end", "status": r["status"],
                        "executed": sorted(t for t, x in executed.items() if x)})
        elif ev == "h_stall":
            out.append({"e": "end", "status": "stall-after-signal" if sig else "stall",
                        "executed": sorted(t for t, x in executed.items() if x)})
    return out

if __name__ == "__main__":
    src, dst = sys.argv[1], sys.argv[2]
    evs = project(open(src))
    with open(dst, "w") as f:
        for e in evs:
            f.write(json.dumps(e) + "\n")
    print(len(evs))
