#!/bin/bash
# tools/try_seeds_batch.sh <outfile> <pid:mutantdir>...
out=$1; shift
for item in "$@"; do
  pid=${item%%:*}; dir=${item#*:}
  cd /repo && git apply $dir/patch.diff || { echo "$item PATCH-FAILED" >> $out; continue; }
  cd /verif && ./check $pid > /tmp/batch_$pid.out 2>/tmp/batch_$pid.err; rc=$?
  echo "$item rc=$rc $(grep -c '^VIOLATION' /tmp/batch_$pid.out) violations; $(grep -m2 signature /tmp/batch_$pid.out | tr '\n' ' ' | cut -c1-200)" >> $out
  git -C /repo checkout -- .
done
echo DONE >> $out
