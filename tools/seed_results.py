#!/usr/bin/env python3
"""Collect the outcome of seeded-change evaluations (vp run logs of tools/seed_eval.sh) into seeded/RESULTS.md"""
import glob, json, os, re
rows = {}
for f in sorted(glob.glob("/root/.vp/runs/*/log"), key=lambda p: int(p.split("/")[-2])):
    for l in open(f, errors="replace"):
        m = re.match(r"SEED (\S+) (C\d+) rc=(\d+) (\d+) violations; *(.*)", l)
        if m:
            seed, pid, rc, n, sig = m.groups()
            key = (seed.replace("/tmp/seeds/", ""), pid)
            sg = re.findall(r'signature: <<\\"([^\\]+)', sig)
            rows[key] = (int(rc), int(n), ", ".join(sorted(set(sg))), os.path.basename(os.path.dirname(f)))
out = ["# Seeded changes: which check catches which", "",
       "Each change was written by an independent sub-agent from the property text alone (nothing from /verif), confirmed by",
       "`tools/confirm_seed.sh` (compiles with and without the hooks, 38/38 existing tests pass, its demonstration fails with the change",
       "and passes without), and evaluated with `tools/seed_eval.sh` (scratch worktree + `VERIF_REPO`, never /repo itself).",
       "rc 1 = the check printed VIOLATION lines (replay-confirmed); rc 0 = held; rc 2 = tool error.", "",
       "| change | check | rc | violation signatures |", "|---|---|---|---|"]
for (seed, pid), (rc, n, sig, run) in sorted(rows.items()):
    out.append("| %s | %s | %d | %s |" % (seed.replace("/tmp/seeds2/", "round2:").replace("/tmp/seeds3/", "round3:"), pid, rc, sig or "-"))
open("/verif/seeded/RESULTS.md", "w").write("\n".join(out) + "\n")
# record the outcome next to each change
for (seed, pid), (rc, n, sig, run) in rows.items():
    d = "/verif/seeded/" + seed.replace("/", "_")
    if seed.startswith("/tmp/seeds2/"):
        a, b = seed[len("/tmp/seeds2/"):].split("/")
        d = "/verif/seeded/%sr2_%s" % (a, b)
    if seed.startswith("/tmp/seeds3/"):
        a, b = seed[len("/tmp/seeds3/"):].split("/")
        d = "/verif/seeded/%sr3_%s" % (a, b)
    if seed.startswith("reverts/"):
        d = "/verif/seeded/revert_" + seed.split("/")[1]
        os.makedirs(d, exist_ok=True)
        src = "/tmp/seeds/" + seed + "/patch.diff"
        if os.path.exists(src) and not os.path.exists(d + "/patch.diff"):
            open(d + "/patch.diff", "w").write(open(src).read())
    mp = d + "/meta.json"
    if os.path.isdir(d):
        m = json.load(open(mp)) if os.path.exists(mp) else {"property": pid, "kind": "revert of a fix: commit " + seed.split("/")[-1],
            "what_i_ran": "tools/seed_eval.sh on a scratch worktree with the reverse patch of the fix commit applied"}
        m.setdefault("checks", {})[pid] = {"exit": rc, "violations_reported": n, "signatures": sig}
        json.dump(m, open(mp, "w"), indent=1)
print("\n".join(out[9:]))
