#!/usr/bin/env python3
"""Vacuity check of the design specifications: run TLC with -coverage on small configurations and list, per action of the
next-state relation, how many (distinct) states it produced. An action that never fires means the properties were never
exercised against it. Writes spec/COVERAGE.md."""
import os, re, sys
sys.path.insert(0, os.path.join(os.path.dirname(os.path.abspath(__file__)), "..", "lib"))
from common import *  # noqa
import engine_suite

rows = []
def cover(spec, cfg, label):
    rc, o = tlc(spec, cfg, workers=8, timeout=1800, extra=["-coverage", "1"], metaname="cov_" + label)
    st = tlc_stats(o)
    acts = {}
    for m in re.finditer(r"^<(\w+) line (\d+), col \d+ to line \d+, col \d+ of module (\w+)>: (\d+):(\d+)", o, re.M):
        acts[(m.group(3), m.group(1))] = (int(m.group(4)), int(m.group(5)))
    rows.append((label, st, acts))

BASE = engine_suite.BASE
cfgs = {"once2_all": dict(BASE, N=2, Failures=True, Signals=True, Skips=True, Slow=True),
        "watch2_fail": dict(BASE, N=2, Watch=True, MaxChanges=1, Inherit=True, Failures=True),
        "watch2_sig": dict(BASE, N=2, Watch=True, MaxChanges=1, Signals=True),
        "cap2": dict(BASE, N=2, CapInbox=1, CapChan=1)}
for name, consts in cfgs.items():
    cover("MC_Engine.tla", write_cfg("Cov_" + name, consts, engine_suite.SAFETY, [], "Spec", False), "Engine/" + name)
out = ["# Action coverage of the design specifications (TLC -coverage 1)", "",
       "`tools/coverage.py`; distinct:total successor states produced by each action of the next-state relation.", ""]
for label, st, acts in rows:
    out += ["## %s - %d distinct states, %s" % (label, st["distinct"], "no error" if st["ok"] else "NOT COMPLETED"), "", "| action | distinct | total |", "|---|---|---|"]
    for (mod, a), (d, t) in sorted(acts.items()):
        out.append("| %s!%s | %d | %d |%s" % (mod, a, d, t, "  **never taken**" if t == 0 else ""))
    out.append("")
allacts = {}
for label, st, acts in rows:
    for k, (d, t) in acts.items():
        allacts[k] = allacts.get(k, 0) + t
never = sorted(a for (m, a), t in allacts.items() if t == 0)
out += ["## Union", "", "actions never taken in any configuration: %s" % (", ".join(never) or "none"), ""]
open(os.path.join(SPEC, "COVERAGE.md"), "w").write("\n".join(out))
print("\n".join(out))
