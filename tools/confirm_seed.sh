#!/bin/bash
# tools/confirm_seed.sh <Cxx> <m1|m2> : confirm a seeded change in a scratch worktree and file it under /verif/seeded
id=$1; mk=$2; base=${3:-/tmp/seeds}; tag=${4:-}; src=$base/$id/$mk; dst=/verif/seeded/${id}${tag}_$mk; wt=/tmp/wt/confirm_${id}${tag}_$mk
mkdir -p $dst; cp $src/patch.diff $src/notes.md $dst/ 2>/dev/null; cp $src/demo.sh $dst/demo.sh 2>/dev/null || cp $src/demo* $dst/
git -C /repo worktree add -q --detach $wt HEAD || exit 2
cd $wt
cargo build --offline >/dev/null 2>&1
timeout -k 5 600 bash $dst/demo.sh $wt > $dst/demo_without.log 2>&1; d0=$?
git apply $dst/patch.diff; applies=$?
cargo build --offline > $dst/build.log 2>&1; b=$?
RUSTFLAGS="--cfg zinoma_verif" cargo build --offline --target-dir $wt/target_v >> $dst/build.log 2>&1; bv=$?
cargo test --workspace --no-fail-fast --offline > $dst/tests.log 2>&1; t=$?
passed=$(grep -E "^test result" $dst/tests.log | awk '{s+=$4} END {print s+0}')
timeout -k 5 600 bash $dst/demo.sh $wt > $dst/demo_with.log 2>&1; d1=$?
cd /; git -C /repo worktree remove --force $wt; git -C /repo worktree prune
tail -c 1500 $dst/demo_with.log > $dst/demo_with.tail; tail -c 800 $dst/demo_without.log > $dst/demo_without.tail; rm -f $dst/demo_with.log $dst/demo_without.log $dst/build.log; tail -5 $dst/tests.log > $dst/tests.tail; rm -f $dst/tests.log
python3 - <<PY
import json
json.dump({"property":"$id","mutant":"$mk","patch_applies":$applies==0,"builds":$b==0,"builds_with_hooks":$bv==0,
 "existing_tests_exit":$t,"existing_tests_passed":$passed,"demo_exit_without_change":$d0,"demo_exit_with_change":$d1,
 "confirmed": ($applies==0 and $b==0 and $bv==0 and $t==0 and $passed==38 and $d0==0 and $d1!=0),
 "what_i_ran":"tools/confirm_seed.sh $id $mk: scratch worktree of /repo HEAD; demo without change; apply; cargo build (with and without --cfg zinoma_verif); cargo test --workspace --offline; demo with change",
 "needs_to_manifest":"see notes.md"}, open("$dst/meta.json","w"), indent=1)
PY
echo "$id $mk done: $(python3 -c "import json;m=json.load(open('$dst/meta.json'));print(m['confirmed'], m['existing_tests_passed'], m['demo_exit_without_change'], m['demo_exit_with_change'])")"
