#!/bin/bash
# tools/run_seeds.sh <seed>... : every suite once per seed on /repo (false-alarm hunt)
cd "$(dirname "$0")/.."
for sd in "$@"; do
  for p in C01 C02 C09 C12 C16; do
    s=$(date +%s); VERIF_SEED=$sd ./check $p > /tmp/rs_${sd}_$p.out 2> /tmp/rs_${sd}_$p.err; rc=$?
    echo "seed=$sd $p rc=$rc $(( $(date +%s) - s ))s $(tail -1 /tmp/rs_${sd}_$p.out | cut -c1-90) known=$(grep -c KNOWN /tmp/rs_${sd}_$p.out)"
  done
  for p in C03 C04 C05 C06 C07 C08 C10 C11 C13 C14 C15 C17 C18 C19 C20; do
    VERIF_SEED=$sd ./check $p > /tmp/rs_${sd}_$p.out 2> /tmp/rs_${sd}_$p.err; rc=$?
    [ $rc -ne 0 ] && echo "seed=$sd $p rc=$rc $(tail -1 /tmp/rs_${sd}_$p.out | cut -c1-90)"
  done
done
echo ALLDONE
