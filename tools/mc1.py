#!/usr/bin/env python3
"""run one named TLC configuration of the engine suite: tools/mc1.py <tier> <name> [Const=val ...]"""
import sys; sys.path.insert(0,'/verif/lib')
from common import *
import engine_suite as E
tier,name=sys.argv[1],sys.argv[2]
n,consts,invs,props,spec,dl,served=[c for c in E.mc_configs(tier) if c[0]==name][0]
for kv in sys.argv[3:]:
    k,v=kv.split("="); consts[k]={"TRUE":True,"FALSE":False}.get(v, v if not v.isdigit() else int(v))
cfg=write_cfg("Engine_"+name+"_x",consts,invs,props,spec,dl)
rc,o=tlc("MC_Engine.tla",cfg,workers=12,timeout=3000)
st=tlc_stats(o); print(name, st)
if not st["ok"]:
    t="\n".join(l for l in o.splitlines() if not TLC_NOISE.match(l))
    i=t.find("Error:"); print(t[i:i+300]); print("....."); print(t[-2500:])
