#!/bin/bash
# tools/seed_eval.sh <seed dir with patch.diff> <property id>...
# Evaluate a seeded change without touching /repo: scratch worktree of /repo + VERIF_REPO. Meant for `vp run`.
set -u
sd=$1; shift
wt=/tmp/wt/eval_$$
git -C /repo worktree add -q --detach $wt HEAD || exit 2
snap=$(pwd)
trap 'git -C /repo worktree remove --force '$wt' 2>/dev/null; git -C /repo worktree prune; case "$snap" in /root/.vp/runs/*) rm -rf "$snap/.build" "$snap/.cache";; esac' EXIT
git -C $wt apply $sd/patch.diff || { echo "$sd PATCH-FAILED"; exit 2; }
export VERIF_REPO=$wt VERIF_RESULTS=/verif/.cache/results
for pid in "$@"; do
  ./check $pid > check_$pid.out 2> check_$pid.err; rc=$?
  echo "SEED $sd $pid rc=$rc $(grep -c '^VIOLATION' check_$pid.out) violations; $(grep -m2 signature check_$pid.out | tr '\n' ' ' | cut -c1-220)"
done
