#!/bin/bash
cd "$(dirname "$0")/.."
for sd in "$@"; do
  for p in C02 C09 C12 C16 C19; do
    s=$(date +%s); VERIF_SEED=$sd ./check $p > /tmp/fs_${sd}_$p.out 2> /tmp/fs_${sd}_$p.err; rc=$?
    echo "seed=$sd $p rc=$rc $(( $(date +%s) - s ))s $(tail -1 /tmp/fs_${sd}_$p.out | cut -c1-90)"
  done
  for p in C03 C05 C13 C18 C14 C15 C08; do
    VERIF_SEED=$sd ./check $p > /tmp/fs_${sd}_$p.out 2> /tmp/fs_${sd}_$p.err; rc=$?
    [ $rc -ne 0 ] && echo "seed=$sd $p rc=$rc $(tail -1 /tmp/fs_${sd}_$p.out | cut -c1-90)"
  done
done
echo ALLDONE
