#!/usr/bin/env python3
"""Print the prompt given to a fresh sub-agent that seeds a property-breaking change.
Only the property text and a scratch worktree path are given (nothing from /verif)."""
import json, sys
pid = sys.argv[1]
wt = sys.argv[2] if len(sys.argv) > 2 else f"/tmp/wt/{pid}"
out = sys.argv[3] if len(sys.argv) > 3 else f"/tmp/seeds/{pid}"
for l in open('/verif/properties.jsonl'):
    p = json.loads(l)
    if p['id'] == pid:
        break
print(f"""You are testing how robust a Rust project's guarantees are. The project is zinoma (a small incremental build/task runner: YAML targets, async actor-based dependency scheduler, checksum-based skip logic, watch mode). You have your own scratch git worktree of it at {wt} . Work ONLY inside {wt} and {out} (create the latter). Do NOT read or touch /repo or /verif or any other worktree under /tmp/wt. There is no network; build with `cargo build --offline` and test with `cargo test --workspace --no-fail-fast --offline` inside {wt} (first build takes ~1 min). When you run the zinoma binary yourself always use `timeout -k 1 <secs>` (a hung zinoma can ignore SIGTERM).

Here is a semantic property that zinoma is supposed to satisfy:

  Title: {p['title']}
  Statement: {p['statement']}
  Quantified over: {p['quantifier']['text']}
  Code it is anchored in: {', '.join(p['anchors']['files'])}

Your task: produce TWO different, independent changes ("mutants") to zinoma's source (src/ only, not tests) such that each one:
  1. still compiles (with and without `RUSTFLAGS="--cfg zinoma_verif"`; files under src/verif.rs and `#[cfg(zinoma_verif)]` lines are instrumentation - leave them alone, do not rely on them),
  2. still passes the whole existing test suite (`cargo test --workspace --no-fail-fast --offline`, 38 tests),
  3. BREAKS the property above for at least one concrete input / schedule / history, and
  4. is REALISTIC and SUBTLE: it should look like a plausible refactoring, optimisation or bug fix gone wrong, and it must need something specific to manifest - a particular interleaving, a crash or fault at a particular point, a multi-step sequence of operations, an unusual input, or two cooperating code sites that each look fine alone. Do NOT produce changes that ordinary use would expose at once (e.g. every build fails, every run hangs, nothing is ever skipped).
The two mutants should attack different mechanisms behind the property.

For each mutant k in {{1,2}} write into {out}/m<k>/ :
  - patch.diff : the change as a unified diff produced by `git -C {wt} diff` (applies with `git apply` to a clean checkout of the worktree's HEAD),
  - a demonstration: a self-contained script `demo.sh <path-to-zinoma-checkout>` (bash or python; may create temp project dirs under a fresh mktemp dir, may build that checkout with cargo --offline, may run the binary repeatedly or with sleeps/signals/file edits to hit the needed timing) that exits 0 when the property holds on the scenario and non-zero when it is violated. It must FAIL with the mutant applied and PASS on the unmodified checkout, reliably (if timing-dependent, loop enough times or arrange timing with sleeps/FIFOs so it is >95% reliable both ways; keep its run time under ~2 minutes),
  - notes.md : which mechanism it attacks, exactly what is needed for the violation to manifest, and the output you observed running demo.sh with and without the mutant.
Verify everything yourself: apply the mutant, build, run the full test suite (must pass), run demo.sh (must fail); then `git -C {wt} checkout -- .`, rebuild, run demo.sh (must pass). Leave the worktree clean (no applied mutant) when you finish. Your final message: a 5-line summary per mutant.""")
