//! Drivers for the non-engine areas (incremental runner, configuration, resources, watcher).
use serde_json::Value;

pub fn incr_main(_job: &Value) -> i32 { eprintln!("not built yet"); 2 }
pub fn config_main(_job: &Value) -> i32 { eprintln!("not built yet"); 2 }
pub fn res_main(_job: &Value) -> i32 { eprintln!("not built yet"); 2 }
pub fn watch_main(_job: &Value) -> i32 { eprintln!("not built yet"); 2 }
