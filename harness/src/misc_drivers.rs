//! Drivers for the non-engine areas: incremental runner on real files (through the real YAML loader and
//! resolver), configuration loading / resolution, resource listing / cleaning, the real watcher.
use crate::config::{ir, yaml};
use crate::domain::{Target, TargetId};
use crate::engine::incremental::{self, storage, IncrementalRunResult};
use crate::engine::verif_api::BuildTerminationReport;
use crate::probe;
use crate::verif::js;
use anyhow::anyhow;
use async_std::channel;
use async_std::task;
use futures::FutureExt;
use serde_json::{json, Value};
use std::collections::HashMap;
use std::io::Write;
use std::os::unix::ffi::OsStrExt;
use std::path::{Path, PathBuf};
use std::time::Duration;

fn sv(v: &Value) -> Vec<String> {
    v.as_array().map(|a| a.iter().map(|x| x.as_str().unwrap().to_string()).collect()).unwrap_or_default()
}

/// file names may be given as {"hex": "..."} to carry non-UTF-8 bytes
fn path_of(root: &Path, v: &Value) -> PathBuf {
    match v {
        Value::String(s) => root.join(s),
        Value::Object(o) => {
            let mut p = root.to_path_buf();
            for seg in o["segs"].as_array().unwrap() {
                let bytes: Vec<u8> = match seg {
                    Value::String(s) => s.as_bytes().to_vec(),
                    other => {
                        let h = other["hex"].as_str().unwrap();
                        (0..h.len()).step_by(2).map(|i| u8::from_str_radix(&h[i..i + 2], 16).unwrap()).collect()
                    }
                };
                p.push(std::ffi::OsStr::from_bytes(&bytes));
            }
            p
        }
        _ => panic!("bad path"),
    }
}

fn content_bytes(spec: &Value) -> Vec<u8> {
    // {"size": n, "fill": byte, "last": byte}
    let n = spec["size"].as_u64().unwrap_or(0) as usize;
    let fill = spec["fill"].as_u64().unwrap_or(97) as u8;
    let mut v = vec![fill; n];
    if n > 0 {
        v[n - 1] = spec["last"].as_u64().unwrap_or(fill as u64) as u8;
    }
    v
}

fn set_mtime(p: &Path, secs: i64) {
    let c = std::ffi::CString::new(p.as_os_str().as_bytes()).unwrap();
    let times = [libc::timespec { tv_sec: secs, tv_nsec: 0 }, libc::timespec { tv_sec: secs, tv_nsec: 0 }];
    unsafe {
        libc::utimensat(libc::AT_FDCWD, c.as_ptr(), times.as_ptr(), 0);
    }
}

fn write_file(root: &Path, w: &Value) {
    let p = path_of(root, &w["path"]);
    if let Some(parent) = p.parent() {
        let _ = std::fs::create_dir_all(parent);
    }
    std::fs::write(&p, content_bytes(&w["content"])).unwrap();
    if let Some(m) = w["mtime"].as_i64() {
        set_mtime(&p, 1_600_000_000 + m);
    }
}

fn load_targets(root: &Path, entry: &str, requested: &[String]) -> anyhow::Result<HashMap<TargetId, Target>> {
    let cfg = yaml::Config::load(&root.join(entry))?;
    let cfg: ir::Config = cfg.into();
    let ids = TargetId::try_parse_many(requested, &cfg.root_project_name)?;
    cfg.try_into_domain_targets(&ids)
}

/// One invocation of the real incremental runner for one target, the script played by the driver.
/// Returns (decision, result).
fn invoke(root: &Path, op: &Value, hist_id: &str) -> (String, String) {
    let entry = op["entry"].as_str().unwrap_or(".");
    let tname = op["t"].as_str().unwrap().to_string();
    let targets = match load_targets(root, entry, &[tname.clone()]) {
        Ok(t) => t,
        Err(e) => return ("none".into(), format!("config-error: {}", e)),
    };
    let target = targets.into_iter().map(|(_, t)| t).find(|t| {
        let id = t.id().to_string();
        id == tname || id.ends_with(&format!("::{}", tname)) || tname.ends_with(&format!("::{}", id))
    });
    let build = match target {
        Some(Target::Build(b)) => b,
        _ => return ("none".into(), "not-a-build-target".into()),
    };
    let p = probe::get();
    p.reset(false, false);
    let crash = op["crash"].as_str().map(|s| s.to_string());
    let tid = build.metadata.id.to_string();
    let (hit_tx, hit_rx) = channel::bounded::<()>(4);
    if let Some(point) = &crash {
        if point != "script" {
            let mut sh = p.sh.lock().unwrap();
            sh.gate_on.insert((point.clone(), tid.clone()));
        }
    }
    let script = op["script"].clone();
    let root2 = root.to_path_buf();
    let crash_in_script = crash.as_deref() == Some("script");
    let hit_tx2 = hit_tx.clone();
    let script_future = async move {
        // the script: a prefix of its writes happens even when it fails or is killed
        for w in script["writes"].as_array().cloned().unwrap_or_default() {
            write_file(&root2, &w);
        }
        for d in script["deletes"].as_array().cloned().unwrap_or_default() {
            let _ = std::fs::remove_file(path_of(&root2, &d));
        }
        if crash_in_script {
            let _ = hit_tx2.send(()).await;
            futures::future::pending::<()>().await;
        }
        match script["outcome"].as_str().unwrap_or("ok") {
            "ok" => Ok(BuildTerminationReport::Completed),
            "cancel" => Ok(BuildTerminationReport::Cancelled),
            _ => Err(anyhow!("Build failed with exit status: 3")),
        }
    };
    let res = std::panic::catch_unwind(std::panic::AssertUnwindSafe(|| {
        task::block_on(async {
            let run = incremental::run(&build.metadata, &build.input, Some(&build.output), script_future).fuse();
            futures::pin_mut!(run);
            let mut ticks = 0u32;
            loop {
                futures::select! {
                    r = run => {
                        return match r {
                            Ok(IncrementalRunResult::Skipped) => "skipped".to_string(),
                            Ok(IncrementalRunResult::Completed) => "completed".to_string(),
                            Ok(IncrementalRunResult::Cancelled) => "cancelled".to_string(),
                            Err(e) => format!("failed: {}", e),
                        };
                    }
                    _ = hit_rx.recv().fuse() => return "crashed".to_string(),
                    _ = task::sleep(Duration::from_millis(20)).fuse() => {
                        // a gate the run is parked at = the instant of the crash
                        let parked = !p.sh.lock().unwrap().gate_tx.is_empty();
                        if parked { return "crashed".to_string(); }
                        ticks += 1;
                        if ticks > 1000 { return "hang".to_string(); }
                    }
                }
            }
        })
    }));
    let result = match res {
        Ok(r) => r,
        Err(_) => "panic".to_string(),
    };
    let evs = p.sh.lock().unwrap().events.clone();
    let decision = evs
        .iter()
        .find(|e| e.ev == "incr_checked")
        .map(|e| if e.get("skip") == Some("true") { "skip" } else { "run" })
        .unwrap_or("none")
        .to_string();
    let _ = hist_id;
    (decision, result)
}

fn state_file(root: &Path, op: &Value) -> PathBuf {
    root.join(op["project_dir"].as_str().unwrap_or(".")).join(".zinoma").join(format!("{}.checksums", op["t"].as_str().unwrap()))
}

pub fn incr_main(job: &Value) -> i32 {
    let out_path = job["out"].as_str().unwrap();
    let scratch = PathBuf::from(job["scratch"].as_str().unwrap()).join(format!("i{}", std::process::id()));
    let mut out = std::io::BufWriter::new(std::fs::File::create(out_path).unwrap());
    for h in job["histories"].as_array().unwrap() {
        let id = h["id"].as_str().unwrap_or("h");
        let root = scratch.join(id);
        let _ = std::fs::remove_dir_all(&root);
        std::fs::create_dir_all(&root).unwrap();
        for (p, text) in h["files"].as_object().unwrap() {
            let fp = root.join(p);
            std::fs::create_dir_all(fp.parent().unwrap()).unwrap();
            std::fs::write(fp, text.as_str().unwrap()).unwrap();
        }
        writeln!(out, "{}", json!({"e": "hist", "id": id, "model": h["model"]})).unwrap();
        out.flush().unwrap();
        for (k, op) in h["ops"].as_array().unwrap().iter().enumerate() {
            let kind = op["op"].as_str().unwrap();
            let mut rec = json!({"e": kind, "k": k, "m": op["m"]});
            match kind {
                "write" => write_file(&root, op),
                "delete" => {
                    let _ = std::fs::remove_file(path_of(&root, &op["path"]));
                }
                "touch" => {
                    if let Some(m) = op["mtime"].as_i64() {
                        set_mtime(&path_of(&root, &op["path"]), 1_600_000_000 + m);
                    }
                }
                "symlink" => {
                    let pth = path_of(&root, &op["path"]);
                    if let Some(parent) = pth.parent() {
                        let _ = std::fs::create_dir_all(parent);
                    }
                    let _ = std::os::unix::fs::symlink(op["to"].as_str().unwrap(), &pth);
                }
                "rename" => {
                    let to = path_of(&root, &op["to"]);
                    if let Some(parent) = to.parent() {
                        let _ = std::fs::create_dir_all(parent);
                    }
                    let _ = std::fs::rename(path_of(&root, &op["from"]), to);
                }
                "invoke" => {
                    let (decision, result) = invoke(&root, op, id);
                    rec["decision"] = json!(decision);
                    rec["result"] = json!(result);
                }
                "corrupt" => {
                    let f = state_file(&root, op);
                    let _ = std::fs::create_dir_all(f.parent().unwrap());
                    let bytes: Vec<u8> = match op["flavour"].as_str().unwrap() {
                        "truncate" => {
                            let b = std::fs::read(&f).unwrap_or_default();
                            let k = (op["k"].as_u64().unwrap_or(0) as usize).min(b.len().saturating_sub(1));
                            rec["len"] = json!(b.len());
                            b[..k].to_vec()
                        }
                        "hex" => {
                            let hx = op["hex"].as_str().unwrap();
                            (0..hx.len()).step_by(2).map(|i| u8::from_str_radix(&hx[i..i + 2], 16).unwrap()).collect()
                        }
                        "foreign" => std::fs::read(state_file(&root, &json!({"t": op["other"], "project_dir": op["project_dir"]}))).unwrap_or_default(),
                        "flip" => {
                            let mut b = std::fs::read(&f).unwrap_or_default();
                            if !b.is_empty() {
                                let k = (op["k"].as_u64().unwrap_or(0) as usize) % b.len();
                                b[k] ^= 0xff;
                            }
                            b
                        }
                        _ => b"Lorem ipsum".to_vec(),
                    };
                    std::fs::write(&f, bytes).unwrap();
                }
                "statelen" => {
                    rec["len"] = json!(std::fs::read(state_file(&root, op)).map(|b| b.len()).unwrap_or(0));
                }
                _ => {}
            }
            writeln!(out, "{}", rec).unwrap();
            out.flush().unwrap();
        }
        let _ = std::fs::remove_dir_all(&root);
    }
    out.flush().unwrap();
    let _ = std::fs::remove_dir_all(&scratch);
    0
}

// ------------------------------------------------------------------------------------------------ configuration

/// Load a generated arrangement of project files and resolve the requested targets with zinoma's own
/// loader and resolver; print verdict, names and the resolved graph.
pub fn config_main(job: &Value) -> i32 {
    let out_path = job["out"].as_str().unwrap();
    let scratch = PathBuf::from(job["scratch"].as_str().unwrap()).join(format!("c{}", std::process::id()));
    let mut out = std::io::BufWriter::new(std::fs::File::create(out_path).unwrap());
    for c in job["cases"].as_array().unwrap() {
        let id = c["id"].as_str().unwrap_or("c");
        let root = scratch.join(id);
        let _ = std::fs::remove_dir_all(&root);
        std::fs::create_dir_all(&root).unwrap();
        for (p, text) in c["files"].as_object().unwrap() {
            let fp = root.join(p);
            std::fs::create_dir_all(fp.parent().unwrap()).unwrap();
            match text {
                Value::String(s) => std::fs::write(fp, s).unwrap(),
                other => {
                    let h = other["hex"].as_str().unwrap();
                    let b: Vec<u8> = (0..h.len()).step_by(2).map(|i| u8::from_str_radix(&h[i..i + 2], 16).unwrap()).collect();
                    std::fs::write(fp, b).unwrap()
                }
            }
        }
        let entry = c["entry"].as_str().unwrap_or(".");
        let requested = sv(&c["requested"]);
        let reps = c["reps"].as_u64().unwrap_or(1);
        let mut results = vec![];
        for _ in 0..reps {
            let r = std::panic::catch_unwind(std::panic::AssertUnwindSafe(|| resolve_case(&root, entry, &requested, c["all"].as_bool().unwrap_or(false))));
            results.push(match r {
                Ok(v) => v,
                Err(_) => json!({"verdict": "panic"}),
            });
        }
        writeln!(out, "{}", json!({"e": "case", "id": id, "m": c["m"], "results": results})).unwrap();
        out.flush().unwrap();
        let _ = std::fs::remove_dir_all(&root);
    }
    out.flush().unwrap();
    let _ = std::fs::remove_dir_all(&scratch);
    0
}

fn resolve_case(root: &Path, entry: &str, requested: &[String], all: bool) -> Value {
    let cfg = match yaml::Config::load(&root.join(entry)) {
        Ok(c) => c,
        Err(e) => return json!({"verdict": "reject", "stage": "load", "error": format!("{:#}", e)}),
    };
    let mut dirs: Vec<String> = cfg
        .get_project_dirs()
        .iter()
        .map(|d| d.strip_prefix(std::fs::canonicalize(root).unwrap()).unwrap_or(d).to_string_lossy().to_string())
        .collect();
    dirs.sort();
    let cfg: ir::Config = cfg.into();
    let mut names = cfg.list_all_available_target_names();
    names.sort();
    let ids = if all {
        cfg.list_all_targets()
    } else {
        for r in requested {
            if !names.contains(r) {
                return json!({"verdict": "reject", "stage": "cli", "names": names, "error": format!("{} is not an available target name", r)});
            }
        }
        match TargetId::try_parse_many(requested, &cfg.root_project_name) {
            Ok(ids) => ids,
            Err(e) => return json!({"verdict": "reject", "stage": "parse", "names": names, "error": format!("{:#}", e)}),
        }
    };
    let root_ids: Vec<String> = ids.iter().map(|i| i.to_string()).collect();
    match cfg.try_into_domain_targets(&ids) {
        Err(e) => json!({"verdict": "reject", "stage": "resolve", "names": names, "error": format!("{:#}", e)}),
        Ok(targets) => {
            let canon = std::fs::canonicalize(root).unwrap();
            let rel = |p: &async_std::path::PathBuf| -> String {
                let p: &std::path::Path = p.as_path().into();
                p.strip_prefix(&canon).unwrap_or(p).to_string_lossy().to_string()
            };
            let mut ts = serde_json::Map::new();
            for (id, t) in &targets {
                let kind = match t {
                    Target::Build(_) => "b",
                    Target::Service(_) => "s",
                    Target::Aggregate(_) => "a",
                };
                let res = |r: Option<&crate::domain::Resources>| -> Value {
                    match r {
                        None => json!(null),
                        Some(r) => json!({
                            "files": r.files.iter().map(|f| json!({"paths": f.paths.iter().map(&rel).collect::<Vec<_>>(),
                                "ext": f.extensions.as_ref().map(|e| e.iter().cloned().collect::<Vec<_>>())})).collect::<Vec<_>>(),
                            "cmds": r.cmds.iter().map(|c| json!({"cmd": c.cmd, "dir": rel(&c.dir)})).collect::<Vec<_>>(),
                        }),
                    }
                };
                ts.insert(
                    id.to_string(),
                    json!({"kind": kind, "deps": t.dependencies().iter().map(|d| d.to_string()).collect::<Vec<_>>(),
                           "dir": rel(&t.metadata().project_dir), "input": res(t.input()), "output": res(t.output())}),
                );
            }
            json!({"verdict": "accept", "names": names, "dirs": dirs, "roots": root_ids, "targets": ts})
        }
    }
}

// ------------------------------------------------------------------------------------------------ resources

fn materialise(root: &Path, tree: &Value) {
    for n in tree.as_array().unwrap() {
        let p = path_of(root, &n["path"]);
        if let Some(parent) = p.parent() {
            let _ = std::fs::create_dir_all(parent);
        }
        match n["type"].as_str().unwrap() {
            "dir" => {
                let _ = std::fs::create_dir_all(&p);
            }
            "file" => std::fs::write(&p, n["content"].as_str().unwrap_or("x")).unwrap(),
            "link" => {
                let _ = std::os::unix::fs::symlink(n["to"].as_str().unwrap(), &p);
            }
            _ => {}
        }
    }
}

fn snapshot(root: &Path) -> Vec<Value> {
    let mut v = vec![];
    for e in walkdir::WalkDir::new(root).sort_by_file_name() {
        let e = match e {
            Ok(e) => e,
            Err(_) => continue,
        };
        let p = e.path();
        if p == root {
            continue;
        }
        let relb = p.strip_prefix(root).unwrap().as_os_str().as_bytes();
        let relhex: String = relb.iter().map(|b| format!("{:02x}", b)).collect();
        let md = std::fs::symlink_metadata(p).unwrap();
        let ty = if md.file_type().is_symlink() {
            "link"
        } else if md.is_dir() {
            "dir"
        } else {
            "file"
        };
        v.push(json!({"hex": relhex, "path": String::from_utf8_lossy(relb), "type": ty}));
    }
    v
}

pub fn res_main(job: &Value) -> i32 {
    let out_path = job["out"].as_str().unwrap();
    let scratch = PathBuf::from(job["scratch"].as_str().unwrap()).join(format!("r{}", std::process::id()));
    let mut out = std::io::BufWriter::new(std::fs::File::create(out_path).unwrap());
    for c in job["cases"].as_array().unwrap() {
        let id = c["id"].as_str().unwrap_or("r");
        let root = scratch.join(id);
        let _ = std::fs::remove_dir_all(&root);
        std::fs::create_dir_all(&root).unwrap();
        materialise(&root, &c["tree"]);
        let proj = root.join(c["project"].as_str().unwrap_or("."));
        let paths: Vec<async_std::path::PathBuf> = c["paths"].as_array().unwrap().iter().map(|p| path_of(&proj, p).into()).collect();
        // extensions go through zinoma's own normalisation by way of a generated project file when "yaml" is given
        let mut rec = json!({"e": "res", "id": id, "m": c["m"]});
        if let Some(y) = c["yaml"].as_str() {
            std::fs::create_dir_all(&proj).unwrap();
            std::fs::write(proj.join("zinoma.yml"), y).unwrap();
            let r = std::panic::catch_unwind(std::panic::AssertUnwindSafe(|| {
                let targets = load_targets(&root, c["project"].as_str().unwrap_or("."), &sv(&c["requested"]));
                match targets {
                    Err(e) => json!({"error": format!("{:#}", e)}),
                    Ok(ts) => {
                        let mut listed = serde_json::Map::new();
                        for (tid, t) in &ts {
                            let mut per = serde_json::Map::new();
                            for (what, r) in [("input", t.input()), ("output", t.output())] {
                                if let Some(r) = r {
                                    let files = task::block_on(crate::fs::list_files_in_resources(&r.files));
                                    let mut v: Vec<String> = files
                                        .iter()
                                        .map(|p| {
                                            let p: &std::path::Path = p.as_path().into();
                                            let canon = std::fs::canonicalize(&root).unwrap();
                                            p.strip_prefix(&canon).unwrap_or(p).as_os_str().as_bytes().iter().map(|b| format!("{:02x}", b)).collect()
                                        })
                                        .collect();
                                    v.sort();
                                    per.insert(what.to_string(), json!(v));
                                }
                            }
                            listed.insert(tid.to_string(), Value::Object(per));
                        }
                        if c["clean"].as_bool().unwrap_or(false) {
                            for t in ts.values() {
                                let _ = task::block_on(crate::clean::clean_target_output_paths(t));
                            }
                        }
                        json!({"listed": listed})
                    }
                }
            }));
            rec["r"] = match r {
                Ok(v) => v,
                Err(_) => json!({"panic": true}),
            };
            rec["after"] = json!(snapshot(&root));
        }
        let _ = paths;
        // the watcher's rule on event paths
        if let Some(evs) = c["events"].as_array() {
            let mut rel = vec![];
            for e in evs {
                let p = path_of(&proj, &e["path"]);
                let exts: crate::domain::FileExtensions = e["ext"].as_array().map(|a| a.iter().map(|x| x.as_str().unwrap().to_string()).collect());
                let r = std::panic::catch_unwind(|| {
                    let ap: async_std::path::PathBuf = p.clone().into();
                    !crate::work_dir::is_in_work_dir(&ap) && crate::domain::matches_extensions(&p, &exts)
                });
                rel.push(match r {
                    Ok(b) => json!(b),
                    Err(_) => json!("panic"),
                });
            }
            rec["relevant"] = json!(rel);
        }
        writeln!(out, "{}", rec).unwrap();
        out.flush().unwrap();
        let _ = std::fs::remove_dir_all(&root);
    }
    out.flush().unwrap();
    let _ = std::fs::remove_dir_all(&scratch);
    0
}

// ------------------------------------------------------------------------------------------------ watcher

/// The real TargetWatcher (real inotify) over a scratch directory; each operation is closed by a sentinel.
pub fn watch_main(job: &Value) -> i32 {
    use crate::engine::verif_api::{TargetInvalidatedMessage, TargetWatcher};
    let out_path = job["out"].as_str().unwrap();
    let scratch = PathBuf::from(job["scratch"].as_str().unwrap()).join(format!("w{}", std::process::id()));
    let mut out = std::io::BufWriter::new(std::fs::File::create(out_path).unwrap());
    for c in job["cases"].as_array().unwrap() {
        let id = c["id"].as_str().unwrap_or("w");
        let root = scratch.join(id);
        let _ = std::fs::remove_dir_all(&root);
        std::fs::create_dir_all(&root).unwrap();
        materialise(&root, &c["tree"]);
        std::fs::write(root.join("zinoma.yml"), c["yaml"].as_str().unwrap()).unwrap();
        let canon = std::fs::canonicalize(&root).unwrap();
        let targets = match load_targets(&canon, ".", &sv(&c["requested"])) {
            Ok(t) => t,
            Err(e) => {
                writeln!(out, "{}", json!({"e": "watch", "id": id, "error": format!("{:#}", e)})).unwrap();
                out.flush().unwrap();
                continue;
            }
        };
        let tname = c["requested"][0].as_str().unwrap();
        let target = targets.iter().find(|(k, _)| k.to_string() == tname).map(|(_, t)| t).unwrap();
        let (tx, rx) = channel::bounded::<TargetInvalidatedMessage>(1);
        probe::get().reset(false, true);
        let watcher = TargetWatcher::new(target.id(), target.input(), &tx);
        let mut rec = json!({"e": "watch", "id": id, "m": c["m"]});
        let watcher = match watcher {
            Ok(w) => w,
            Err(e) => {
                rec["error"] = json!(format!("{:#}", e));
                writeln!(out, "{}", rec).unwrap();
                out.flush().unwrap();
                continue;
            }
        };
        std::thread::sleep(Duration::from_millis(30));
        let drain = |rx: &channel::Receiver<TargetInvalidatedMessage>| -> bool {
            let mut got = false;
            while rx.try_recv().is_ok() {
                got = true;
            }
            got
        };
        let sentinel = canon.join(c["sentinel"].as_str().unwrap());
        let sentinel_s = sentinel.to_string_lossy().to_string();
        let mut results = vec![];
        let mut nsent = 0u32;
        let p = probe::get();
        for op in c["ops"].as_array().unwrap() {
            drain(&rx);
            let from = p.sh.lock().unwrap().events.len();
            let pth = path_of(&canon, &op["path"]);
            match op["op"].as_str().unwrap() {
                "create" | "modify" => {
                    if let Some(parent) = pth.parent() {
                        let _ = std::fs::create_dir_all(parent);
                    }
                    let mut f = std::fs::OpenOptions::new().create(true).append(true).open(&pth).unwrap();
                    let _ = f.write_all(b"x");
                }
                "delete" => {
                    let _ = std::fs::remove_file(&pth);
                }
                "rename" => {
                    let _ = std::fs::rename(&pth, path_of(&canon, &op["to"]));
                }
                "mkdir" => {
                    let _ = std::fs::create_dir_all(&pth);
                }
                _ => {}
            }
            std::thread::sleep(Duration::from_millis(c["settle_ms"].as_u64().unwrap_or(30)));
            // sentinel: a relevant edit that must be reported whatever happened before; inotify delivers in order, so
            // every callback for the operation itself precedes the sentinel's
            nsent += 1;
            std::fs::write(&sentinel, format!("s{}", nsent)).unwrap();
            let mut alive = false;
            let mut upto = from;
            for _ in 0..200 {
                std::thread::sleep(Duration::from_millis(10));
                let sh = p.sh.lock().unwrap();
                if let Some(k) = sh.events[from..].iter().position(|e| {
                    e.ev == "watch_event" && e.get("relevant") == Some("true") && e.get("paths").map(|x| x.contains(&sentinel_s)).unwrap_or(false)
                }) {
                    alive = true;
                    upto = from + k;
                    break;
                }
            }
            // each notify watcher (one per extension group) has its own thread: the callbacks of another group for this
            // operation may arrive after the sentinel's; give them a quiet period, then look at everything but the sentinel
            if alive {
                let mut last = p.sh.lock().unwrap().events.len();
                for _ in 0..20 {
                    std::thread::sleep(Duration::from_millis(15));
                    let now = p.sh.lock().unwrap().events.len();
                    if now == last {
                        break;
                    }
                    last = now;
                }
            }
            let _ = upto;
            let canon_s = format!("{}/", canon.to_string_lossy());
            let mut cbs = vec![];
            {
                let sh = p.sh.lock().unwrap();
                for e in sh.events[from..].iter() {
                    if e.ev == "watch_event" && e.get("relevant") == Some("true") {
                        let paths: Vec<String> = e.get("paths").and_then(|x| serde_json::from_str(x).ok()).unwrap_or_default();
                        let others: Vec<Vec<String>> = paths
                            .iter()
                            .filter(|x| **x != sentinel_s)
                            .map(|x| x.strip_prefix(&canon_s).unwrap_or(x).split('/').map(|c| c.replace('\u{fffd}', "?")).collect())
                            .collect();
                        if !others.is_empty() {
                            let exts: String = e.get("exts").and_then(|x| serde_json::from_str(x).ok()).unwrap_or_default();
                            cbs.push(json!({"exts": exts, "paths": others}));
                        }
                    }
                }
            }
            let triggered = !cbs.is_empty();
            let delivered = drain(&rx);
            results.push(json!({"triggered": triggered, "alive": alive && delivered, "cbs": cbs}));
        }
        drop(watcher);
        rec["results"] = json!(results);
        writeln!(out, "{}", rec).unwrap();
        out.flush().unwrap();
        let _ = std::fs::remove_dir_all(&root);
    }
    out.flush().unwrap();
    let _ = std::fs::remove_dir_all(&scratch);
    0
}
