//! The harness's implementation of zinoma's verification probe: an in-memory, sequence-ordered event
//! store the driver thread can wait on, virtual build verdict channels, invalidator registry, gates.
use crate::verif::{self, Fields, Gate, Probe, Verdict};
use async_std::channel::{self, Receiver, Sender};
use std::collections::HashMap;
use std::sync::{Arc, Condvar, Mutex};
use std::time::{Duration, Instant};

#[derive(Clone, Debug)]
pub struct Ev {
    pub seq: u64,
    pub ev: String,
    pub t: String,
    pub fields: Vec<(String, String)>,
}

impl Ev {
    pub fn get(&self, k: &str) -> Option<&str> {
        self.fields.iter().find(|(n, _)| n == k).map(|(_, v)| v.as_str())
    }
    pub fn json(&self) -> String {
        let mut line = format!("{{\"seq\":{},\"ev\":{},\"t\":{}", self.seq, verif::js(&self.ev), verif::js(&self.t));
        for (k, v) in &self.fields {
            line.push_str(&format!(",{}:{}", verif::js(k), v));
        }
        line.push('}');
        line
    }
}

#[derive(Default)]
pub struct Shared {
    pub events: Vec<Ev>,
    pub verdict_tx: HashMap<String, Sender<Verdict>>,
    pub invalidators: HashMap<String, Arc<dyn Fn() -> bool + Send + Sync>>,
    /// (point, target) pairs at which the instrumented code is held until the driver releases it
    pub gate_on: std::collections::HashSet<(String, String)>,
    pub gate_tx: HashMap<(String, String), Sender<()>>,
    /// released by the driver before the instrumented code got to ask for its gate
    pub gate_released: std::collections::HashSet<(String, String)>,
    pub virtual_builds: bool,
    pub real_watchers: bool,
}

pub struct HProbe {
    pub sh: Mutex<Shared>,
    pub cv: Condvar,
}

static PROBE: std::sync::OnceLock<&'static HProbe> = std::sync::OnceLock::new();

pub fn get() -> &'static HProbe {
    PROBE.get_or_init(|| {
        let p: &'static HProbe = Box::leak(Box::new(HProbe {
            sh: Mutex::new(Shared { real_watchers: true, ..Default::default() }),
            cv: Condvar::new(),
        }));
        verif::install(Box::new(Fwd(p)));
        p
    })
}

struct Fwd(&'static HProbe);

impl Probe for Fwd {
    fn event(&self, seq: u64, ev: &str, target: &str, fields: Fields) {
        let mut sh = self.0.sh.lock().unwrap();
        sh.events.push(Ev {
            seq,
            ev: ev.to_string(),
            t: target.to_string(),
            fields: fields.iter().map(|(k, v)| (k.to_string(), v.clone())).collect(),
        });
        self.0.cv.notify_all();
    }
    fn gate(&self, point: &str, target: &str) -> Option<Gate> {
        let key = (point.to_string(), target.to_string());
        let mut sh = self.0.sh.lock().unwrap();
        if !sh.gate_on.contains(&key) || sh.gate_released.remove(&key) {
            return None;
        }
        let (tx, rx) = channel::bounded(1);
        sh.gate_tx.insert(key, tx);
        drop(sh);
        Some(Box::pin(async move {
            let _ = rx.recv().await;
        }))
    }
    fn virtual_build(&self, target: &str) -> Option<Receiver<Verdict>> {
        let mut sh = self.0.sh.lock().unwrap();
        if !sh.virtual_builds {
            return None;
        }
        let (tx, rx) = channel::bounded(1);
        sh.verdict_tx.insert(target.to_string(), tx);
        Some(rx)
    }
    fn real_watchers(&self) -> bool {
        self.0.sh.lock().unwrap().real_watchers
    }
    fn register_invalidator(&self, target: &str, f: Box<dyn Fn() -> bool + Send + Sync>) {
        self.0.sh.lock().unwrap().invalidators.insert(target.to_string(), Arc::from(f));
    }
}

impl HProbe {
    pub fn reset(&self, virtual_builds: bool, real_watchers: bool) {
        let mut sh = self.sh.lock().unwrap();
        sh.events.clear();
        sh.verdict_tx.clear();
        sh.invalidators.clear();
        sh.gate_on.clear();
        sh.gate_tx.clear();
        sh.gate_released.clear();
        sh.virtual_builds = virtual_builds;
        sh.real_watchers = real_watchers;
    }
    /// Events from index `from` on; waits up to `wait` for at least one.
    pub fn take_from(&self, from: usize, wait: Duration) -> Vec<Ev> {
        let deadline = Instant::now() + wait;
        let mut sh = self.sh.lock().unwrap();
        loop {
            if sh.events.len() > from {
                return sh.events[from..].to_vec();
            }
            let now = Instant::now();
            if now >= deadline {
                return vec![];
            }
            let (g, _) = self.cv.wait_timeout(sh, deadline - now).unwrap();
            sh = g;
        }
    }
    pub fn all_json(&self) -> Vec<String> {
        self.sh.lock().unwrap().events.iter().map(|e| e.json()).collect()
    }
}
