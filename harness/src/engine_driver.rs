//! Schedule-controlled execution of the real engine (engine::run + TargetActors + the three actors +
//! incremental::run on real files), with virtual build shells. The harness sits between the actors
//! and the relay (channel A -> pool -> channel B) and decides every source of nondeterminism:
//! which message the relay receives next, when a script finishes and how, when a file changes,
//! when its notification arrives, when the signal arrives. Quiescence is a fact derived from hook
//! events, never a timeout.
use crate::domain::{
    AggregateTarget, BuildTarget, FilesResource, Resources, ServiceTarget, Target, TargetId, TargetMetadata,
};
use crate::engine::verif_api::{BuildTerminationReport, TargetActorOutputMessage};
use crate::engine::{self, TargetActors, WatchOption};
use crate::probe::{self, Ev};
use crate::verif::{self, js, Verdict};
use crate::TerminationMessage;
use async_std::channel::{self, Receiver, Sender};
use async_std::task;
use rand::rngs::StdRng;
use rand::{Rng, SeedableRng};
use serde_json::{json, Value};
use std::collections::{BTreeMap, HashMap, HashSet, VecDeque};
use std::io::Write;
use std::path::{Path, PathBuf};
use std::time::{Duration, Instant};

#[derive(Clone, Debug)]
pub struct Cfg {
    pub id: String,
    pub n: usize,
    pub kind: Vec<String>,      // index 0 = t1
    pub deps: Vec<Vec<usize>>,  // 1-based ids
    pub roots: Vec<usize>,      // request order, duplicates allowed
    pub watch: bool,
    pub may_fail: Vec<usize>,
    pub slow: Vec<usize>,
    pub rec: Vec<usize>,        // builds that start with a current record
    pub inh: Vec<Vec<usize>>,   // X.output inheritance
    pub svc_fail: Vec<usize>,   // services whose launch fails in this run
    pub gates: Vec<(String, usize)>, // (point, target): phases of incremental::run the driver holds
    pub edit_only: Vec<usize>,  // if not empty: the only targets whose inputs the driver edits (directed watch scenarios)
    pub raw: Value,
}

fn usv(v: &Value) -> Vec<usize> {
    v.as_array().map(|a| a.iter().map(|x| x.as_u64().unwrap() as usize).collect()).unwrap_or_default()
}

impl Cfg {
    pub fn from_json(v: &Value) -> Cfg {
        let n = v["n"].as_u64().unwrap() as usize;
        Cfg {
            id: v["id"].as_str().unwrap_or("").to_string(),
            n,
            kind: v["kind"].as_array().unwrap().iter().map(|x| x.as_str().unwrap().to_string()).collect(),
            deps: v["deps"].as_array().unwrap().iter().map(usv).collect(),
            roots: usv(&v["roots"]),
            watch: v["watch"].as_bool().unwrap_or(false),
            may_fail: usv(&v["may_fail"]),
            slow: usv(&v["slow"]),
            rec: usv(&v["rec"]),
            inh: v["inh"].as_array().map(|a| a.iter().map(usv).collect()).unwrap_or_else(|| vec![vec![]; n]),
            svc_fail: usv(&v["svc_fail"]),
            gates: v["gates"]
                .as_array()
                .map(|a| a.iter().map(|g| (g[0].as_str().unwrap().to_string(), g[1].as_u64().unwrap() as usize)).collect())
                .unwrap_or_default(),
            edit_only: usv(&v["edit_only"]),
            raw: v.clone(),
        }
    }
    fn name(i: usize) -> String {
        format!("t{}", i)
    }
    fn idx(name: &str) -> usize {
        name[1..].parse().unwrap()
    }
}

fn tid(i: usize) -> TargetId {
    TargetId { project_name: None, target_name: Cfg::name(i) }
}

fn files(p: PathBuf) -> FilesResource {
    FilesResource { paths: vec![p.into()], extensions: None }
}

fn make_target(cfg: &Cfg, dir: &Path, i: usize) -> Target {
    let metadata = TargetMetadata {
        id: tid(i),
        project_dir: if cfg.svc_fail.contains(&i) { dir.join("missing-dir").into() } else { dir.to_path_buf().into() },
        dependencies: cfg.deps[i - 1].iter().map(|d| tid(*d)).collect(),
    };
    let mut input = Resources { files: vec![files(dir.join(format!("in_t{}.txt", i)))], cmds: vec![] };
    for d in &cfg.inh[i - 1] {
        input.files.push(files(dir.join(format!("out_t{}.txt", d))));
    }
    match cfg.kind[i - 1].as_str() {
        "b" => Target::Build(BuildTarget {
            metadata,
            build_script: "true".to_string(),
            input,
            output: Resources { files: vec![files(dir.join(format!("out_t{}.txt", i)))], cmds: vec![] },
        }),
        "s" => Target::Service(ServiceTarget { metadata, run_script: "exec sleep 1000".to_string(), input }),
        _ => Target::Aggregate(AggregateTarget { metadata }),
    }
}

#[derive(Default, Clone)]
struct ActorTrack {
    launched: bool,
    exited: bool,
    busy: bool,
    recv_cnt: usize,
    delivered: usize,
    build_active: bool,
    parked: bool,
    pending_inval: bool,
    gate: Option<String>,
    term_seen: bool,
}

#[derive(Default)]
struct Track {
    actors: BTreeMap<String, ActorTrack>,
    announced: usize,
    a_received: usize,
    root_busy: bool,
    relay_recv: usize,
    b_pushed: usize,
    loop_exited: bool,
    waiting_signal: bool,
    signal_sent: bool,
    done: bool,
    next_ev: usize,
    gate_on: HashSet<(String, String)>,
}

impl Track {
    fn actor(&mut self, t: &str) -> &mut ActorTrack {
        self.actors.entry(t.to_string()).or_default()
    }
    fn feed(&mut self, e: &Ev) {
        match e.ev.as_str() {
            "launch" => {
                let a = self.actor(&e.t);
                a.launched = true;
                a.busy = true;
            }
            "idle" => self.actor(&e.t).busy = false,
            "recv" => {
                let a = self.actor(&e.t);
                a.busy = true;
                a.recv_cnt += 1;
            }
            "wake_inval" => {
                let a = self.actor(&e.t);
                a.busy = true;
                a.pending_inval = false;
            }
            "wake_term" => {
                let a = self.actor(&e.t);
                a.busy = true;
                a.term_seen = true;
            }
            "incr_checked" | "incr_script_done" | "incr_computed" | "incr_captured" | "incr_deleted" | "incr_saved" => {
                if self.gate_on.contains(&(e.ev.clone(), e.t.clone())) {
                    self.actor(&e.t).gate = Some(e.ev.clone());
                }
            }
            "wake_build" => {
                let a = self.actor(&e.t);
                a.busy = true;
                a.build_active = false;
                a.parked = false;
            }
            "build_begin" => {
                let a = self.actor(&e.t);
                a.build_active = true;
                a.parked = false;
            }
            "vbuild_wait" => self.actor(&e.t).parked = true,
            "vbuild_done" => self.actor(&e.t).parked = false,
            "actor_exit" => self.actor(&e.t).exited = true,
            "send" | "send_error" => self.announced += 1,
            "root_request" => self.actor(&e.t).delivered += 2,
            "root_idle" => self.root_busy = false,
            "relay_recv" => {
                self.root_busy = true;
                self.relay_recv += 1;
            }
            "root_loop_exit" => {
                self.loop_exited = true;
                self.root_busy = true;
            }
            "root_error" => self.loop_exited = true,
            "root_wait_signal" => self.waiting_signal = true,
            "engine_done" => self.done = true,
            _ => {}
        }
    }
    fn root_quiet(&self) -> bool {
        if self.done {
            return true;
        }
        if self.signal_sent {
            return false;
        }
        if self.waiting_signal {
            return true;
        }
        !self.loop_exited && !self.root_busy && self.relay_recv == self.b_pushed
    }
    fn quiescent(&self) -> bool {
        self.announced == self.a_received
            && self.root_quiet()
            && self.actors.values().all(|a| {
                !a.launched
                    || a.exited
                    || (!a.busy
                        && a.recv_cnt == a.delivered
                        && (!a.build_active || a.parked || (a.gate.is_some() && !a.term_seen))
                        && !a.pending_inval)
            })
    }
}

pub struct RunOutcome {
    pub status: String, // "exit0" | "exit1" | "idle" (legitimately waiting) | "stuck" | "stall" | "maxsteps"
    pub steps: Vec<String>,
    pub choices: Vec<(Vec<String>, usize)>,
    pub lines: Vec<String>,
    pub nondet: bool,
}

pub trait Chooser {
    /// pick an index into `enabled`; None = stop here
    fn choose(&mut self, step: usize, enabled: &[String]) -> Option<usize>;
}

struct Run<'a> {
    cfg: &'a Cfg,
    dir: PathBuf,
    tr: Track,
    pool: BTreeMap<(String, String), VecDeque<(TargetActorOutputMessage, String)>>,
    a_rx: Receiver<TargetActorOutputMessage>,
    b_tx: Sender<TargetActorOutputMessage>,
    term_tx: Sender<TerminationMessage>,
    edits: usize,
    max_changes: usize,
    signals: bool,
    notif_pending: HashSet<String>,
    gens: HashMap<usize, usize>,
    vers: HashMap<usize, usize>,
}

fn hemit(ev: &str, t: &str, fields: &[(&str, String)]) {
    verif::emit(ev, t, fields);
}

impl<'a> Run<'a> {
    fn drain_a(&mut self) {
        while let Ok(m) = self.a_rx.try_recv() {
            let j = m.verif_json();
            let v: Value = serde_json::from_str(&j).unwrap();
            let (from, dest) = if v["type"] == "error" {
                (v["from"].as_str().unwrap().to_string(), "ROOT".to_string())
            } else {
                (v["msg"]["from"].as_str().unwrap().to_string(), v["dest"].as_str().unwrap().to_string())
            };
            self.pool.entry((from, dest)).or_default().push_back((m, j));
            self.tr.a_received += 1;
        }
    }

    /// Wait until nothing can move by itself. false = stall (no quiescence within the limit).
    fn settle(&mut self, limit: Duration) -> bool {
        let p = probe::get();
        let mut start = Instant::now();
        loop {
            self.drain_a();
            let evs = p.take_from(self.tr.next_ev, Duration::from_millis(0));
            for e in &evs {
                self.tr.feed(e);
            }
            self.tr.next_ev += evs.len();
            if !evs.is_empty() {
                // the limit is on the absence of any progress, not on the length of the settle
                start = Instant::now();
            }
            // a held phase always ends: once its actor has handled the termination message, let it go
            let late: Vec<String> =
                self.tr.actors.iter().filter(|(_, a)| a.gate.is_some() && a.term_seen).map(|(t, _)| t.clone()).collect();
            for t in late {
                self.release_gate(&t, true);
            }
            if evs.is_empty() {
                self.drain_a();
                if self.tr.quiescent() {
                    // re-check after a last look at the event store, so that the verdict is about one instant
                    let again = p.take_from(self.tr.next_ev, Duration::from_millis(0));
                    if again.is_empty() && self.a_rx.is_empty() {
                        return true;
                    }
                    continue;
                }
                if start.elapsed() > limit {
                    return false;
                }
                let _ = p.take_from(self.tr.next_ev, Duration::from_millis(2));
            }
        }
    }

    fn release_gate(&mut self, t: &str, auto: bool) {
        if let Some(point) = self.tr.actor(t).gate.take() {
            hemit("h_gate", t, &[("point", js(&point)), ("auto", auto.to_string())]);
            let mut sh = probe::get().sh.lock().unwrap();
            let key = (point, t.to_string());
            match sh.gate_tx.remove(&key) {
                Some(tx) => {
                    tx.try_send(()).ok();
                }
                None => {
                    sh.gate_released.insert(key);
                }
            }
        }
    }

    fn enabled(&self) -> Vec<String> {
        let mut v = vec![];
        if self.tr.done {
            return v;
        }
        let relay_open = !self.tr.loop_exited && !self.tr.signal_sent;
        if relay_open {
            for ((s, d), q) in &self.pool {
                if !q.is_empty() {
                    v.push(format!("D:{}>{}", s, d));
                }
            }
        }
        for (t, a) in &self.tr.actors {
            if a.launched && !a.exited && a.gate.is_some() {
                v.push(format!("G:{}", t));
            }
        }
        for (t, a) in &self.tr.actors {
            if a.launched && !a.exited && a.build_active && a.parked {
                let i = Cfg::idx(t);
                if !self.cfg.slow.contains(&i) {
                    v.push(format!("F:{}:ok", t));
                    if self.cfg.may_fail.contains(&i) {
                        v.push(format!("F:{}:fail", t));
                    }
                }
            }
        }
        if self.cfg.watch && !self.tr.signal_sent {
            for (t, a) in &self.tr.actors {
                let i = Cfg::idx(t);
                if a.launched && !a.exited && self.cfg.kind[i - 1] != "a" {
                    if self.edits < self.max_changes && (self.cfg.edit_only.is_empty() || self.cfg.edit_only.contains(&i)) {
                        v.push(format!("E:{}", t));
                    }
                    if self.notif_pending.contains(t) {
                        v.push(format!("N:{}", t));
                    }
                }
            }
        }
        if self.signals && !self.tr.signal_sent {
            v.push("S".to_string());
        }
        v
    }

    fn write_out(&mut self, i: usize) {
        let g = self.gens.entry(i).or_insert(0);
        *g += 1;
        std::fs::write(self.dir.join(format!("out_t{}.txt", i)), format!("gen {}\n", g)).unwrap();
    }

    fn apply(&mut self, s: &str) {
        let parts: Vec<&str> = s.split(':').collect();
        match parts[0] {
            "D" => {
                let (from, dest) = parts[1].split_once('>').unwrap();
                let (m, j) = self.pool.get_mut(&(from.to_string(), dest.to_string())).unwrap().pop_front().unwrap();
                hemit("h_deliver", "", &[("from", js(from)), ("dest", js(dest)), ("out", j)]);
                self.tr.b_pushed += 1;
                if dest != "ROOT" {
                    self.tr.actor(dest).delivered += 1;
                }
                self.b_tx.try_send(m).ok();
            }
            "F" => {
                let t = parts[1];
                let ok = parts[2] == "ok";
                let i = Cfg::idx(t);
                if ok {
                    self.write_out(i);
                }
                hemit("h_finish", t, &[("outcome", js(parts[2]))]);
                self.tr.actor(t).parked = false;
                let tx = probe::get().sh.lock().unwrap().verdict_tx.get(t).cloned();
                if let Some(tx) = tx {
                    tx.try_send(if ok { Verdict::Ok } else { Verdict::Fail }).ok();
                }
            }
            "E" => {
                let t = parts[1];
                let i = Cfg::idx(t);
                let ver = self.vers.entry(i).or_insert(0);
                *ver += 1;
                std::fs::write(self.dir.join(format!("in_t{}.txt", i)), format!("version {}\n", ver)).unwrap();
                self.edits += 1;
                self.notif_pending.insert(t.to_string());
                hemit("h_edit", t, &[("ver", ver.to_string())]);
            }
            "N" => {
                let t = parts[1];
                self.notif_pending.remove(t);
                // logged before the slot is filled: the log order must stay a causal order
                hemit("h_notify", t, &[]);
                let f = probe::get().sh.lock().unwrap().invalidators.get(t).cloned();
                // the actor may wake (and log) at once: mark the notification as pending first
                self.tr.actor(t).pending_inval = true;
                let accepted = f.map(|f| f()).unwrap_or(false);
                if !accepted {
                    self.tr.actor(t).pending_inval = false;
                }
                hemit("h_notify_result", t, &[("accepted", accepted.to_string())]);
            }
            "G" => {
                let t = parts[1].to_string();
                self.release_gate(&t, false);
            }
            "S" => {
                hemit("h_signal", "", &[]);
                self.tr.signal_sent = true;
                self.term_tx.try_send(TerminationMessage).ok();
            }
            _ => panic!("bad stimulus {}", s),
        }
    }
}

fn setup_dir(cfg: &Cfg, dir: &Path) {
    let _ = std::fs::remove_dir_all(dir);
    std::fs::create_dir_all(dir).unwrap();
    for i in 1..=cfg.n {
        std::fs::write(dir.join(format!("in_t{}.txt", i)), "version 0\n").unwrap();
        if cfg.kind[i - 1] == "b" {
            std::fs::write(dir.join(format!("out_t{}.txt", i)), "gen 0\n").unwrap();
        }
    }
    // records left by an "earlier invocation": written by the real incremental runner
    probe::get().reset(false, false);
    for i in 1..=cfg.n {
        if cfg.rec.contains(&i) && cfg.kind[i - 1] == "b" {
            if let Target::Build(b) = make_target(cfg, dir, i) {
                task::block_on(async {
                    let _ = engine::incremental::run(&b.metadata, &b.input, Some(&b.output), async {
                        Ok(BuildTerminationReport::Completed)
                    })
                    .await;
                });
            }
        }
    }
}

pub fn run_once(
    cfg: &Cfg,
    dir: &Path,
    chooser: &mut dyn Chooser,
    max_steps: usize,
    max_changes: usize,
    signals: bool,
) -> RunOutcome {
    setup_dir(cfg, dir);
    let p = probe::get();
    p.reset(true, false);
    let gate_on: HashSet<(String, String)> = cfg.gates.iter().map(|(p, t)| (p.clone(), Cfg::name(*t))).collect();
    p.sh.lock().unwrap().gate_on = gate_on.clone();
    hemit("cfg", &cfg.id, &[("cfg", cfg.raw.to_string())]);

    let mut targets = HashMap::new();
    for i in 1..=cfg.n {
        targets.insert(tid(i), make_target(cfg, dir, i));
    }
    let (a_tx, a_rx) = channel::unbounded();
    let (b_tx, b_rx) = channel::unbounded();
    let (term_tx, term_rx) = channel::bounded(1);
    let watch: WatchOption = cfg.watch.into();
    let roots: Vec<TargetId> = cfg.roots.iter().map(|r| tid(*r)).collect();

    let handle = task::spawn(async move {
        let mut target_actors = TargetActors::new(targets, a_tx, watch);
        let result = engine::run(roots, watch, &mut target_actors, term_rx, b_rx).await;
        verif::emit("engine_result", "", &[("ok", result.is_ok().to_string())]);
        target_actors.terminate().await;
        verif::emit("engine_done", "", &[("ok", result.is_ok().to_string())]);
        result.is_ok()
    });

    let mut run = Run {
        cfg,
        dir: dir.to_path_buf(),
        tr: Track { root_busy: true, gate_on, ..Default::default() },
        pool: BTreeMap::new(),
        a_rx,
        b_tx,
        term_tx,
        edits: 0,
        max_changes,
        signals,
        notif_pending: HashSet::new(),
        gens: HashMap::new(),
        vers: HashMap::new(),
    };

    let mut steps = vec![];
    let mut choices = vec![];
    let status;
    loop {
        if !run.settle(Duration::from_secs(20)) {
            hemit("h_stall", "", &[]);
            status = "stall".to_string();
            break;
        }
        let enabled = run.enabled();
        if run.tr.done {
            let ok = task::block_on(handle);
            status = if ok { "exit0".to_string() } else { "exit1".to_string() };
            hemit("h_exit", "", &[("status", if ok { "0" } else { "1" }.to_string())]);
            return finish(run, status, steps, choices);
        }
        // only the non-environmental stimuli say whether zinoma itself can still move
        let internal: Vec<&String> =
            enabled.iter().filter(|s| s.starts_with("D:") || s.starts_with("N:") || s.starts_with("G:")).collect();
        let scripts: Vec<&String> = enabled.iter().filter(|s| s.starts_with("F:")).collect();
        hemit(
            "h_quiescent",
            "",
            &[
                ("enabled", format!("[{}]", enabled.iter().map(|s| js(s)).collect::<Vec<_>>().join(","))),
                ("waiting_signal", run.tr.waiting_signal.to_string()),
            ],
        );
        if internal.is_empty() && scripts.is_empty() {
            // nothing will ever happen without the user: legitimate only when waiting for a signal / watching
            let running_slow = run.tr.actors.iter().any(|(_, a)| a.build_active && a.parked);
            let legit = run.tr.waiting_signal || cfg.watch || running_slow;
            let env_left = enabled.iter().any(|s| s.starts_with("E:") || s == "S");
            if !env_left || steps.len() >= max_steps {
                status = if legit { "idle".to_string() } else { "stuck".to_string() };
                hemit("h_end", "", &[("status", js(&status))]);
                break;
            }
        }
        if steps.len() >= max_steps {
            status = "maxsteps".to_string();
            hemit("h_end", "", &[("status", js(&status))]);
            break;
        }
        match chooser.choose(steps.len(), &enabled) {
            None => {
                let legit = internal.is_empty() && scripts.is_empty();
                status = if legit { "idle".to_string() } else { "stopped".to_string() };
                hemit("h_end", "", &[("status", js(&status))]);
                break;
            }
            Some(k) => {
                let s = enabled[k].clone();
                choices.push((enabled.clone(), k));
                run.apply(&s);
                steps.push(s);
            }
        }
    }
    // The run did not exit by itself: tear it down (signal, then let every parked script be cancelled).
    if status != "stall" {
        if !run.tr.signal_sent {
            run.tr.signal_sent = true;
            run.term_tx.try_send(TerminationMessage).ok();
        }
        if run.settle(Duration::from_secs(20)) && run.tr.done {
            let _ = task::block_on(handle);
        } else {
            return finish(run, "stall".to_string(), steps, choices);
        }
    }
    finish(run, status, steps, choices)
}

fn finish(run: Run, status: String, steps: Vec<String>, choices: Vec<(Vec<String>, usize)>) -> RunOutcome {
    let _ = std::fs::remove_dir_all(&run.dir);
    RunOutcome { status, steps, choices, lines: probe::get().all_json(), nondet: false }
}

/// Free-running execution: no interposition, no serialisation - the actors send straight into the channel the relay reads
/// (unbounded, as main.rs creates it), inboxes have the capacity this binary was built with (ZV_CAP=1 for the capacity
/// variant), virtual scripts finish after short random delays on their own. This is the mode in which a send can block.
/// Nothing is steered, so the only verdicts are those of the observable specification on the recorded events, plus
/// "no event for 15 s with nothing pending" (every task is blocked: scripts only finish when this driver says so).
pub fn run_free(cfg: &Cfg, dir: &Path, seed: u64, signals: bool) -> RunOutcome {
    setup_dir(cfg, dir);
    let p = probe::get();
    p.reset(true, false);
    hemit("cfg", &cfg.id, &[("cfg", cfg.raw.to_string())]);
    let mut targets = HashMap::new();
    for i in 1..=cfg.n {
        targets.insert(tid(i), make_target(cfg, dir, i));
    }
    let (a_tx, a_rx) = channel::unbounded();
    let (term_tx, term_rx) = channel::bounded(1);
    let watch: WatchOption = cfg.watch.into();
    let roots: Vec<TargetId> = cfg.roots.iter().map(|r| tid(*r)).collect();
    let handle = task::spawn(async move {
        let mut target_actors = TargetActors::new(targets, a_tx, watch);
        let result = engine::run(roots, watch, &mut target_actors, term_rx, a_rx).await;
        verif::emit("engine_result", "", &[("ok", result.is_ok().to_string())]);
        target_actors.terminate().await;
        verif::emit("engine_done", "", &[("ok", result.is_ok().to_string())]);
        result.is_ok()
    });
    let mut rng = StdRng::seed_from_u64(seed);
    let mut next = 0usize;
    let mut pending: Vec<(String, Instant)> = vec![];
    let mut parked_slow = 0usize;
    let mut waiting = false;
    let mut done = false;
    let mut signalled = false;
    let mut last_event = Instant::now();
    let signal_at = if signals { Some(Instant::now() + Duration::from_micros(rng.gen_range(0..4000))) } else { None };
    let status;
    loop {
        let evs = p.take_from(next, Duration::from_millis(1));
        next += evs.len();
        if !evs.is_empty() {
            last_event = Instant::now();
        }
        for e in &evs {
            match e.ev.as_str() {
                "vbuild_wait" => {
                    if cfg.slow.contains(&Cfg::idx(&e.t)) {
                        parked_slow += 1;
                    } else {
                        pending.push((e.t.clone(), Instant::now() + Duration::from_micros(rng.gen_range(0..3000))));
                    }
                }
                "root_wait_signal" => waiting = true,
                "engine_done" => done = true,
                _ => {}
            }
        }
        if done {
            let ok = task::block_on(handle);
            hemit("h_exit", "", &[("status", if ok { "0" } else { "1" }.to_string())]);
            status = if ok { "exit0" } else { "exit1" }.to_string();
            break;
        }
        let now = Instant::now();
        let mut k = 0;
        while k < pending.len() {
            if pending[k].1 <= now {
                let (t, _) = pending.remove(k);
                let fail = cfg.may_fail.contains(&Cfg::idx(&t)) && rng.gen_bool(0.15);
                hemit("h_finish", &t, &[("outcome", js(if fail { "fail" } else { "ok" }))]);
                if !fail {
                    let i = Cfg::idx(&t);
                    std::fs::write(dir.join(format!("out_t{}.txt", i)), format!("gen {}\n", rng.gen::<u32>())).ok();
                }
                let tx = p.sh.lock().unwrap().verdict_tx.get(&t).cloned();
                if let Some(tx) = tx {
                    tx.try_send(if fail { Verdict::Fail } else { Verdict::Ok }).ok();
                }
            } else {
                k += 1;
            }
        }
        if let Some(at) = signal_at {
            if !signalled && now >= at {
                hemit("h_signal", "", &[]);
                signalled = true;
                term_tx.try_send(TerminationMessage).ok();
            }
        }
        let quiet = last_event.elapsed();
        if pending.is_empty() && quiet > Duration::from_millis(1500) && !signalled && (waiting || cfg.watch || parked_slow > 0) {
            // legitimately idle: waiting for the user, watching, or only never-ending scripts left
            hemit("h_end", "", &[("status", js("idle"))]);
            hemit("h_signal", "", &[]);
            signalled = true;
            term_tx.try_send(TerminationMessage).ok();
            last_event = Instant::now();
        } else if pending.is_empty() && quiet > Duration::from_secs(15) {
            hemit("h_stall", "", &[]);
            status = "stall".to_string();
            let _ = std::fs::remove_dir_all(dir);
            return RunOutcome { status, steps: vec![], choices: vec![], lines: probe::get().all_json(), nondet: false };
        }
    }
    let _ = std::fs::remove_dir_all(dir);
    RunOutcome { status, steps: vec![], choices: vec![], lines: probe::get().all_json(), nondet: false }
}

// ------------------------------------------------------------------------------------------------

struct RandomChooser {
    rng: StdRng,
    policy: String,
    stop_prob: f64,
}

impl Chooser for RandomChooser {
    fn choose(&mut self, _step: usize, enabled: &[String]) -> Option<usize> {
        if enabled.is_empty() {
            return None;
        }
        let weight = |s: &String| -> f64 {
            let c = s.chars().next().unwrap();
            match (self.policy.as_str(), c) {
                ("messages_first", 'D') => 20.0,
                ("messages_first", _) => 1.0,
                ("failures_first", 'F') if s.ends_with(":fail") => 30.0,
                ("failures_first", 'G') => 0.3,
                ("failures_first", _) => 1.0,
                ("completions_first", 'F') => 20.0,
                ("completions_first", _) => 1.0,
                ("edits_first", 'E') | ("edits_first", 'N') => 10.0,
                ("edits_first", _) => 1.0,
                (_, 'S') => 0.15,
                (_, 'E') => 0.5,
                _ => 1.0,
            }
        };
        let ws: Vec<f64> = enabled.iter().map(weight).collect();
        let total: f64 = ws.iter().sum();
        let mut x = self.rng.gen::<f64>() * total;
        for (i, w) in ws.iter().enumerate() {
            if x < *w {
                return Some(i);
            }
            x -= w;
        }
        Some(enabled.len() - 1)
    }
}

struct ReplayChooser {
    sched: Vec<String>,
    strict: bool,
    pub diverged: bool,
}

impl Chooser for ReplayChooser {
    fn choose(&mut self, step: usize, enabled: &[String]) -> Option<usize> {
        if step >= self.sched.len() {
            // after the prescribed prefix: run to completion taking the first internal stimulus
            if self.strict {
                return None;
            }
            return enabled
                .iter()
                .position(|s| s.starts_with("D:") || s.starts_with("F:") || s.starts_with("N:") || s.starts_with("G:"));
        }
        match enabled.iter().position(|s| s == &self.sched[step]) {
            Some(k) => Some(k),
            None => {
                self.diverged = true;
                None
            }
        }
    }
}

struct DfsChooser {
    prefix: Vec<usize>,
}

impl Chooser for DfsChooser {
    fn choose(&mut self, step: usize, enabled: &[String]) -> Option<usize> {
        if enabled.is_empty() {
            return None;
        }
        if step < self.prefix.len() {
            if self.prefix[step] < enabled.len() {
                Some(self.prefix[step])
            } else {
                None
            }
        } else {
            Some(0)
        }
    }
}

pub fn main(job: &Value) -> i32 {
    let out_path = job["out"].as_str().unwrap().to_string();
    let scratch = PathBuf::from(job["scratch"].as_str().unwrap());
    let mode = job["mode"].as_str().unwrap_or("random");
    let seed = job["seed"].as_u64().unwrap_or(0);
    let max_steps = job["max_steps"].as_u64().unwrap_or(300) as usize;
    let max_changes = job["max_changes"].as_u64().unwrap_or(0) as usize;
    let signals = job["signals"].as_bool().unwrap_or(false);
    let runs_per_config = job["runs_per_config"].as_u64().unwrap_or(1) as usize;
    let dfs_budget = job["dfs_budget"].as_u64().unwrap_or(200) as usize;
    let policies: Vec<String> = job["policies"]
        .as_array()
        .map(|a| a.iter().map(|x| x.as_str().unwrap().to_string()).collect())
        .unwrap_or_else(|| vec!["uniform".to_string()]);
    let cfgs: Vec<Cfg> = job["configs"].as_array().unwrap().iter().map(Cfg::from_json).collect();
    let mut out = std::io::BufWriter::new(std::fs::File::create(&out_path).unwrap());
    let mut summary = vec![];
    let mut stalled = false;
    let dir = scratch.join(format!("p{}", std::process::id()));

    'outer: for (ci, cfg) in cfgs.iter().enumerate() {
        let mut emit_run = |o: &RunOutcome, out: &mut dyn Write, label: &str| {
            for l in &o.lines {
                writeln!(out, "{}", l).unwrap();
            }
            summary.push(json!({"cfg": cfg.id, "label": label, "status": o.status, "steps": o.steps}));
        };
        match mode {
            "free" => {
                for r in 0..runs_per_config {
                    let s = seed.wrapping_mul(1_000_003).wrapping_add((ci * 7919 + r) as u64);
                    let o = run_free(cfg, &dir, s, signals && r % 3 == 2);
                    emit_run(&o, &mut out, "free");
                    if o.status == "stall" {
                        stalled = true;
                        break 'outer;
                    }
                }
            }
            "replay" => {
                let sched: Vec<String> =
                    cfg.raw["schedule"].as_array().unwrap().iter().map(|x| x.as_str().unwrap().to_string()).collect();
                let strict = cfg.raw["strict"].as_bool().unwrap_or(false);
                let mut ch = ReplayChooser { sched, strict, diverged: false };
                let mut o = run_once(cfg, &dir, &mut ch, max_steps, max_changes, signals);
                if ch.diverged {
                    o.status = format!("diverged:{}", o.status);
                }
                emit_run(&o, &mut out, "replay");
                if o.status.ends_with("stall") {
                    stalled = true;
                    break 'outer;
                }
            }
            "dfs" => {
                let mut prefix: Vec<usize> = vec![];
                let mut runs = 0;
                loop {
                    let mut ch = DfsChooser { prefix: prefix.clone() };
                    let o = run_once(cfg, &dir, &mut ch, max_steps, max_changes, signals);
                    runs += 1;
                    emit_run(&o, &mut out, "dfs");
                    if o.status == "stall" {
                        stalled = true;
                        break 'outer;
                    }
                    // backtrack: deepest choice point with an untried alternative
                    let mut c = o.choices.clone();
                    loop {
                        match c.pop() {
                            None => break,
                            Some((en, k)) => {
                                if k + 1 < en.len() {
                                    c.push((en, k + 1));
                                    break;
                                }
                            }
                        }
                    }
                    if c.is_empty() || runs >= dfs_budget {
                        summary.push(json!({"cfg": cfg.id, "label": "dfs_done", "runs": runs, "exhausted": c.is_empty()}));
                        break;
                    }
                    prefix = c.iter().map(|(_, k)| *k).collect();
                }
            }
            _ => {
                for r in 0..runs_per_config {
                    let policy = policies[(r + ci) % policies.len()].clone();
                    let s = seed.wrapping_mul(1_000_003).wrapping_add((ci * 7919 + r) as u64);
                    let mut ch = RandomChooser { rng: StdRng::seed_from_u64(s), policy: policy.clone(), stop_prob: 0.0 };
                    let o = run_once(cfg, &dir, &mut ch, max_steps, max_changes, signals);
                    emit_run(&o, &mut out, &policy);
                    if o.status == "stall" {
                        stalled = true;
                        break 'outer;
                    }
                }
            }
        }
    }
    out.flush().unwrap();
    let text = json!({"runs": summary, "stalled": stalled}).to_string();
    std::fs::write(format!("{}.summary.json", out_path), &text).unwrap();
    println!("{}", text);
    if stalled {
        3
    } else {
        0
    }
}
