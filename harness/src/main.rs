//! zv: conformance harness for zinoma. Mounts zinoma's own modules from /repo's working tree
//! (so every build checks the *current* sources, hooks on) and drives them.
#![allow(dead_code, unused_imports, clippy::all)]
#![recursion_limit = "1024"]

#[path = "/repo/src/async_utils.rs"]
mod async_utils;
#[path = "/repo/src/clean.rs"]
mod clean;
#[path = "/repo/src/config/mod.rs"]
mod config;
#[path = "/repo/src/domain.rs"]
mod domain;
#[path = "/repo/src/engine/mod.rs"]
mod engine;
#[path = "/repo/src/fs.rs"]
mod fs;
#[path = "/repo/src/run_script.rs"]
mod run_script;
#[path = "/repo/src/verif.rs"]
mod verif;
#[path = "/repo/src/work_dir.rs"]
mod work_dir;

mod engine_driver;
mod probe;
mod misc_drivers;

const fn parse_cap(s: Option<&str>) -> usize {
    match s {
        None => 64,
        Some(s) => {
            let b = s.as_bytes();
            let mut i = 0;
            let mut v = 0usize;
            while i < b.len() {
                v = v * 10 + (b[i] - b'0') as usize;
                i += 1;
            }
            v
        }
    }
}

/// Same item main.rs defines; settable at build time (`ZV_CAP=1 cargo build`) for capacity-1/2 variants.
pub static DEFAULT_CHANNEL_CAP: usize = parse_cap(option_env!("ZV_CAP"));

pub struct TerminationMessage;

fn main() {
    let args: Vec<String> = std::env::args().collect();
    if args.len() < 3 {
        eprintln!("usage: zv <engine|incr|config|res|watch> <job.json>");
        std::process::exit(2);
    }
    let job: serde_json::Value = match std::fs::read_to_string(&args[2])
        .map_err(|e| e.to_string())
        .and_then(|s| serde_json::from_str(&s).map_err(|e| e.to_string()))
    {
        Ok(v) => v,
        Err(e) => {
            eprintln!("zv: cannot read job {}: {}", args[2], e);
            std::process::exit(2);
        }
    };
    let code = match args[1].as_str() {
        "engine" => engine_driver::main(&job),
        "incr" => misc_drivers::incr_main(&job),
        "config" => misc_drivers::config_main(&job),
        "res" => misc_drivers::res_main(&job),
        "watch" => misc_drivers::watch_main(&job),
        other => {
            eprintln!("zv: unknown mode {}", other);
            2
        }
    };
    std::process::exit(code);
}
